/* Replay driver for the public C API of libdigital_rf.
 *
 * Reads a script on stdin, one command per line, and prints one result line per
 * command on stdout.  Sample data come from a raw byte file written by the
 * harness, copied into an exactly-sized malloc block so that an out-of-bounds
 * read by the library is caught by AddressSanitizer.
 *
 *   create <dir> <order:<|>> <kind:i|u|f> <bytes> <sc> <fc> <start> <n> <d> <uuid>
 *          <compression> <checksum> <is_complex> <nsub> <is_continuous>
 *   write <rel_index> <nsamples> <datafile> <byte_offset> <nbytes>
 *   wblocks <nblocks> <g0> <b0> ... <nsamples> <datafile> <byte_offset> <nbytes>
 *   wnull <rel_index> <nsamples>
 *   last
 *   close
 */
#include <stdio.h>
#include <stdlib.h>
#include <string.h>
#include <stdint.h>
#include <inttypes.h>
#include "digital_rf.h"

static hid_t h5type(char order, char kind, int bytes)
{
	if (kind == 'f' && bytes == 4) return order == '<' ? H5T_IEEE_F32LE : H5T_IEEE_F32BE;
	if (kind == 'f' && bytes == 8) return order == '<' ? H5T_IEEE_F64LE : H5T_IEEE_F64BE;
	if (kind == 'i' && bytes == 1) return order == '<' ? H5T_STD_I8LE : H5T_STD_I8BE;
	if (kind == 'i' && bytes == 2) return order == '<' ? H5T_STD_I16LE : H5T_STD_I16BE;
	if (kind == 'i' && bytes == 4) return order == '<' ? H5T_STD_I32LE : H5T_STD_I32BE;
	if (kind == 'i' && bytes == 8) return order == '<' ? H5T_STD_I64LE : H5T_STD_I64BE;
	if (kind == 'u' && bytes == 1) return order == '<' ? H5T_STD_U8LE : H5T_STD_U8BE;
	if (kind == 'u' && bytes == 2) return order == '<' ? H5T_STD_U16LE : H5T_STD_U16BE;
	if (kind == 'u' && bytes == 4) return order == '<' ? H5T_STD_U32LE : H5T_STD_U32BE;
	if (kind == 'u' && bytes == 8) return order == '<' ? H5T_STD_U64LE : H5T_STD_U64BE;
	return -1;
}

static void *load(const char *path, long off, long nbytes)
{
	FILE *f = fopen(path, "rb");
	void *buf;
	if (!f) { perror(path); exit(3); }
	buf = malloc(nbytes > 0 ? nbytes : 1);
	fseek(f, off, SEEK_SET);
	if (nbytes > 0 && fread(buf, 1, nbytes, f) != (size_t)nbytes) { fprintf(stderr, "short data file\n"); exit(3); }
	fclose(f);
	return buf;
}

/* paths arrive with blanks encoded as 0x01 (the line protocol is blank-separated) */
static char *unesc(char *s)
{
	char *c;
	for (c = s; c && *c; c++)
		if (*c == '\x01') *c = ' ';
	return s;
}

int main(void)
{
	char line[65536];
	Digital_rf_write_object *w = NULL;
	setvbuf(stdout, NULL, _IOLBF, 0);
	while (fgets(line, sizeof line, stdin)) {
		char *tok = strtok(line, " \n");
		if (!tok) continue;
		if (!strcmp(tok, "create")) {
			char dir[2048], order[8], kind[8], uuid[256];
			int bytes, comp, cks, cplx, nsub, cont;
			uint64_t sc, fc, start, n, d;
			char *rest = strtok(NULL, "\n");
			if (sscanf(rest, "%2047s %7s %7s %d %" SCNu64 " %" SCNu64 " %" SCNu64 " %" SCNu64 " %" SCNu64 " %255s %d %d %d %d %d",
			           dir, order, kind, &bytes, &sc, &fc, &start, &n, &d, uuid, &comp, &cks, &cplx, &nsub, &cont) != 15) {
				fprintf(stderr, "bad create\n"); return 3;
			}
			unesc(dir);
			w = digital_rf_create_write_hdf5(dir, h5type(order[0], kind[0], bytes), sc, fc, start, n, d, uuid,
			                                 comp, cks, cplx, nsub, cont, 0);
			printf("C %d\n", w ? 0 : -1);
		} else if (!strcmp(tok, "write")) {
			uint64_t idx = strtoull(strtok(NULL, " \n"), NULL, 10);
			uint64_t len = strtoull(strtok(NULL, " \n"), NULL, 10);
			char *path = strtok(NULL, " \n");
			long off = atol(strtok(NULL, " \n"));
			long nbytes = atol(strtok(NULL, " \n"));
			void *buf = load(unesc(path), off, nbytes);
			uint64_t before = w->global_index;
			int rc = digital_rf_write_hdf5(w, idx, buf, len);
			printf("R %d %" PRIu64 " %" PRIu64 " %d\n", rc, before, w->global_index, w->has_failure);
			free(buf);
		} else if (!strcmp(tok, "wnull")) {
			uint64_t idx = strtoull(strtok(NULL, " \n"), NULL, 10);
			uint64_t len = strtoull(strtok(NULL, " \n"), NULL, 10);
			uint64_t before = w->global_index;
			int rc = digital_rf_write_hdf5(w, idx, NULL, len);
			printf("R %d %" PRIu64 " %" PRIu64 " %d\n", rc, before, w->global_index, w->has_failure);
		} else if (!strcmp(tok, "wblocks")) {
			uint64_t nb = strtoull(strtok(NULL, " \n"), NULL, 10);
			uint64_t *g = malloc(sizeof(uint64_t) * (nb ? nb : 1));
			uint64_t *b = malloc(sizeof(uint64_t) * (nb ? nb : 1));
			uint64_t i, len, before;
			char *path;
			long off, nbytes;
			void *buf;
			int rc;
			for (i = 0; i < nb; i++) {
				g[i] = strtoull(strtok(NULL, " \n"), NULL, 10);
				b[i] = strtoull(strtok(NULL, " \n"), NULL, 10);
			}
			len = strtoull(strtok(NULL, " \n"), NULL, 10);
			path = strtok(NULL, " \n");
			off = atol(strtok(NULL, " \n"));
			nbytes = atol(strtok(NULL, " \n"));
			buf = load(unesc(path), off, nbytes);
			before = w->global_index;
			rc = digital_rf_write_blocks_hdf5(w, g, b, nb, buf, len);
			printf("R %d %" PRIu64 " %" PRIu64 " %d\n", rc, before, w->global_index, w->has_failure);
			free(buf); free(g); free(b);
		} else if (!strcmp(tok, "last")) {
			char *f = digital_rf_get_last_file_written(w);
			char *dd = digital_rf_get_last_dir_written(w);
			printf("L %s|%s\n", f, dd);
			free(f); free(dd);
		} else if (!strcmp(tok, "close")) {
			int rc = digital_rf_close_write_hdf5(w);
			w = NULL;
			printf("X %d\n", rc);
		} else {
			fprintf(stderr, "unknown command %s\n", tok);
			return 3;
		}
	}
	if (w) digital_rf_close_write_hdf5(w);
	return 0;
}
