/* ctypes helper: thin batch wrappers around the real (private) C functions of
 * rf_write_hdf5.c.  Compiled together with /repo/c/lib/rf_write_hdf5.c on every
 * staging, using the real header, so struct or signature changes are followed. */
#include <string.h>
#include <stdint.h>
#include "digital_rf.h"

int digital_rf_get_timestamp_floor(uint64_t, uint64_t, uint64_t, uint64_t *, uint64_t *);
int digital_rf_get_sample_ceil(uint64_t, uint64_t, uint64_t, uint64_t, uint64_t *);
int digital_rf_get_subdir_file(Digital_rf_write_object *, uint64_t, char *, char *, uint64_t *, uint64_t *);

int drfv_floor_batch(uint64_t n, uint64_t d, const uint64_t *k, uint64_t count,
                     uint64_t *sec, uint64_t *ps)
{
	uint64_t i;
	int rc = 0;
	for (i = 0; i < count; i++)
		rc |= digital_rf_get_timestamp_floor(k[i], n, d, &sec[i], &ps[i]);
	return rc;
}

int drfv_ceil_batch(uint64_t n, uint64_t d, const uint64_t *sec, const uint64_t *ps,
                    uint64_t count, uint64_t *k)
{
	uint64_t i;
	int rc = 0;
	for (i = 0; i < count; i++)
		rc |= digital_rf_get_sample_ceil(sec[i], ps[i], n, d, &k[i]);
	return rc;
}

/* subdir: count x 32 bytes, basename: count x 48 bytes */
int drfv_subdir_file_batch(uint64_t n, uint64_t d, uint64_t sc, uint64_t fc, uint64_t start,
                           const uint64_t *krel, uint64_t count, char *subdir, char *basename,
                           uint64_t *left, uint64_t *maxs, int *rcs)
{
	Digital_rf_write_object obj;
	char sd[BIG_HDF5_STR];
	char bn[SMALL_HDF5_STR];
	uint64_t i;
	memset(&obj, 0, sizeof(obj));
	obj.subdir_cadence_secs = sc;
	obj.file_cadence_millisecs = fc;
	obj.global_start_sample = start;
	obj.sample_rate_numerator = n;
	obj.sample_rate_denominator = d;
	obj.sample_rate = (long double)n / (long double)d;
	for (i = 0; i < count; i++) {
		sd[0] = 0;
		bn[0] = 0;
		left[i] = 0;
		maxs[i] = 0;
		rcs[i] = digital_rf_get_subdir_file(&obj, krel[i], sd, bn, &left[i], &maxs[i]);
		strncpy(subdir + 32 * i, sd, 31);
		subdir[32 * i + 31] = 0;
		strncpy(basename + 48 * i, bn, 47);
		basename[48 * i + 47] = 0;
	}
	return 0;
}
