/* LD_PRELOAD probe: records whether the digital_rf extension enters non-reentrant / non-thread-safe
 * library code (libc gmtime with its static result buffer - called for every index->time conversion
 * and every file/subdirectory name) while the calling thread does not hold the Python interpreter lock.
 * Only calls whose return address lies inside the digital_rf extension module are counted.  (The HDF5
 * entry points are not interposed: h5py loads a second, bundled HDF5 whose calls would be caught too.)  Result: "<fn> <calls> <calls without lock>"
 * lines in $GILPROBE_OUT at exit. */
#define _GNU_SOURCE
#include <dlfcn.h>
#include <stdio.h>
#include <stdlib.h>
#include <string.h>
#include <time.h>

enum { F_GMTIME, F_N };
static const char *names[F_N] = {"gmtime"};
static long calls[F_N], unheld[F_N];

static void note(int f, void *ra)
{
	static int (*chk)(void);
	Dl_info di;
	if (!dladdr(ra, &di) || !di.dli_fname || !strstr(di.dli_fname, "_py_rf_write_hdf5")) return;
	if (!chk) chk = (int (*)(void))dlsym(RTLD_DEFAULT, "PyGILState_Check");
	calls[f]++;
	if (chk && !chk()) unheld[f]++;
}

struct tm *gmtime(const time_t *t)
{
	static struct tm *(*real)(const time_t *);
	if (!real) real = (struct tm * (*)(const time_t *)) dlsym(RTLD_NEXT, "gmtime");
	note(F_GMTIME, __builtin_return_address(0));
	return real(t);
}

__attribute__((destructor)) static void report(void)
{
	const char *p = getenv("GILPROBE_OUT");
	FILE *f;
	int i;
	if (!p || !(f = fopen(p, "w"))) return;
	for (i = 0; i < F_N; i++) fprintf(f, "%s %ld %ld\n", names[i], calls[i], unheld[i]);
	fclose(f);
}
