/* fsshim: LD_PRELOAD interposer that turns the file-system operations a process
 * issues below one root directory into numbered, controllable steps.
 *
 * For every intercepted operation (open/create, write, truncate, close, rename,
 * mkdir, unlink) below the armed root the shim can
 *   - log it           "O <i> <kind> <len> <path>[|<path2>]"  then "T <i> <ret> <errno>"
 *   - pause before it  ("P" instead of "O", then wait for one byte on ack_fd)
 *   - pause after it   ("Q <i>" then wait for one byte)
 *   - kill the process before it (or, for a write, after half of it: torn write)
 *   - make it fail with a chosen errno, once or persistently from there on.
 * It also pins time() so that two runs of one schedule give identical bytes.
 * Inert until armed (drfshim_arm through ctypes after fork, or DRFSHIM_* env).
 */
#define _GNU_SOURCE
#include <dlfcn.h>
#include <errno.h>
#include <fcntl.h>
#include <stdarg.h>
#include <stdio.h>
#include <stdlib.h>
#include <string.h>
#include <sys/stat.h>
#include <sys/types.h>
#include <time.h>
#include <unistd.h>

enum { K_OPEN = 0, K_CREATE, K_WRITE, K_TRUNC, K_CLOSE, K_RENAME, K_MKDIR, K_UNLINK, K_NKINDS };
static const char *kind_name[] = {"open", "create", "write", "trunc", "close", "rename", "mkdir", "unlink"};

#define MAXFD 4096
static int armed = 0;
static char root[2048];
static size_t rootlen = 0;
static int log_fd = -1, ack_fd = -1;
static long opno = 0;
static long kill_at = -1;
static int torn = 0;
static long fault_at = -1, fault_at2 = -1;
static int fault_errno = 0, fault_persist = 0;
static unsigned pause_before = 0, pause_after = 0;
static long fixed_time = 0;
static unsigned faultable_mask = 0x7f; /* everything except unlink */
static char *fdpath[MAXFD];

static int (*r_open)(const char *, int, ...);
static int (*r_open64)(const char *, int, ...);
static int (*r_openat)(int, const char *, int, ...);
static int (*r_creat)(const char *, mode_t);
static ssize_t (*r_write)(int, const void *, size_t);
static ssize_t (*r_pwrite)(int, const void *, size_t, off_t);
static ssize_t (*r_pwrite64)(int, const void *, size_t, off64_t);
static int (*r_ftruncate)(int, off_t);
static int (*r_ftruncate64)(int, off64_t);
static int (*r_close)(int);
static int (*r_rename)(const char *, const char *);
static int (*r_mkdir)(const char *, mode_t);
static int (*r_unlink)(const char *);
static int (*r_remove)(const char *);
static int (*r_rmdir)(const char *);
static time_t (*r_time)(time_t *);
static ssize_t (*r_read)(int, void *, size_t);

#define RESOLVE(sym) do { if (!r_##sym) *(void **)(&r_##sym) = dlsym(RTLD_NEXT, #sym); } while (0)

static void emit(const char *buf, size_t n)
{
	RESOLVE(write);
	while (n > 0) {
		ssize_t w = r_write(log_fd, buf, n);
		if (w <= 0) _exit(98);
		buf += w; n -= (size_t)w;
	}
}

static void wait_ack(void)
{
	char c;
	RESOLVE(read);
	for (;;) {
		ssize_t r = r_read(ack_fd, &c, 1);
		if (r == 1) return;
		if (r == 0) _exit(99);
		if (errno != EINTR) _exit(99);
	}
}

static int under_root(const char *p)
{
	return armed && p && rootlen && strncmp(p, root, rootlen) == 0;
}

/* called before an operation; returns 1 if the op must fail (errno set), else 0.
 * *idx receives the operation number. */
static int before(int kind, size_t len, const char *p1, const char *p2, long *idx)
{
	char buf[4600];
	long i = opno++;
	int n;
	int pausing = (pause_before >> kind) & 1;
	*idx = i;
	if (kill_at == i && !(torn && kind == K_WRITE)) {
		if (log_fd >= 0) {
			n = snprintf(buf, sizeof buf, "K %ld %s\n", i, kind_name[kind]);
			emit(buf, (size_t)n);
		}
		_exit(137);
	}
	if (log_fd >= 0) {
		n = snprintf(buf, sizeof buf, "%c %ld %s %zu %s%s%s\n", pausing ? 'P' : 'O', i, kind_name[kind], len,
		             p1 ? p1 : "-", p2 ? "|" : "", p2 ? p2 : "");
		emit(buf, (size_t)n);
	}
	if (pausing) wait_ack();
	if (((faultable_mask >> kind) & 1) &&
	    (i == fault_at || i == fault_at2 ||
	     (fault_persist == 1 && fault_at >= 0 && i >= fault_at) ||
	     /* persist 2: "the disk stays full" - from fault_at on every operation that needs space fails,
	      * operations that need none (open of an existing file, close, rename, unlink) keep working */
	     (fault_persist == 2 && fault_at >= 0 && i >= fault_at &&
	      (kind == K_WRITE || kind == K_TRUNC || kind == K_CREATE || kind == K_MKDIR)))) {
		errno = fault_errno;
		return 1;
	}
	return 0;
}

static void after(int kind, long idx, long ret, int err)
{
	char buf[128];
	int n;
	if (log_fd >= 0) {
		n = snprintf(buf, sizeof buf, "T %ld %ld %d\n", idx, ret, ret < 0 ? err : 0);
		emit(buf, (size_t)n);
	}
	if ((pause_after >> kind) & 1) {
		n = snprintf(buf, sizeof buf, "Q %ld %s\n", idx, kind_name[kind]);
		emit(buf, (size_t)n);
		wait_ack();
	}
	errno = err;
}

static void track(int fd, const char *path)
{
	if (fd >= 0 && fd < MAXFD) {
		free(fdpath[fd]);
		fdpath[fd] = strdup(path);
	}
}

static const char *tracked(int fd)
{
	if (!armed || fd < 0 || fd >= MAXFD) return NULL;
	return fdpath[fd];
}

static int do_open(int which, int dirfd, const char *path, int flags, mode_t mode)
{
	long idx;
	int fd, e;
	int kind = (flags & O_CREAT) ? K_CREATE : K_OPEN;
	int hooked = under_root(path);
	if (hooked && before(kind, 0, path, NULL, &idx)) {
		e = errno;
		after(kind, idx, -1, e);
		return -1;
	}
	if (which == 0) { RESOLVE(open); fd = r_open(path, flags, mode); }
	else if (which == 1) { RESOLVE(open64); fd = r_open64(path, flags, mode); }
	else { RESOLVE(openat); fd = r_openat(dirfd, path, flags, mode); }
	e = errno;
	if (hooked) {
		if (fd >= 0) track(fd, path);
		after(kind, idx, fd, e);
	}
	return fd;
}

int open(const char *path, int flags, ...)
{
	mode_t mode = 0;
	if (flags & (O_CREAT | O_TMPFILE)) { va_list ap; va_start(ap, flags); mode = va_arg(ap, mode_t); va_end(ap); }
	return do_open(0, 0, path, flags, mode);
}

int open64(const char *path, int flags, ...)
{
	mode_t mode = 0;
	if (flags & (O_CREAT | O_TMPFILE)) { va_list ap; va_start(ap, flags); mode = va_arg(ap, mode_t); va_end(ap); }
	return do_open(1, 0, path, flags, mode);
}

int openat(int dirfd, const char *path, int flags, ...)
{
	mode_t mode = 0;
	if (flags & (O_CREAT | O_TMPFILE)) { va_list ap; va_start(ap, flags); mode = va_arg(ap, mode_t); va_end(ap); }
	return do_open(2, dirfd, path, flags, mode);
}

int creat(const char *path, mode_t mode)
{
	return do_open(0, 0, path, O_CREAT | O_WRONLY | O_TRUNC, mode);
}

static ssize_t do_write(int which, int fd, const void *buf, size_t len, off64_t off)
{
	long idx;
	ssize_t r;
	int e;
	const char *p = tracked(fd);
	if (p) {
		if (torn && kill_at == opno) {
			/* torn write: half of the bytes reach the file, then the process dies */
			char lb[4600];
			int n = snprintf(lb, sizeof lb, "K %ld write-torn %zu %s\n", opno, len / 2, p);
			if (log_fd >= 0) emit(lb, (size_t)n);
			if (len / 2 > 0) {
				if (which == 0) { RESOLVE(write); r_write(fd, buf, len / 2); }
				else { RESOLVE(pwrite64); r_pwrite64(fd, buf, len / 2, off); }
			}
			_exit(137);
		}
		if (before(K_WRITE, len, p, NULL, &idx)) {
			e = errno;
			after(K_WRITE, idx, -1, e);
			return -1;
		}
	}
	if (which == 0) { RESOLVE(write); r = r_write(fd, buf, len); }
	else if (which == 1) { RESOLVE(pwrite); r = r_pwrite(fd, buf, len, (off_t)off); }
	else { RESOLVE(pwrite64); r = r_pwrite64(fd, buf, len, off); }
	e = errno;
	if (p) after(K_WRITE, idx, (long)r, e);
	return r;
}

ssize_t write(int fd, const void *buf, size_t len) { return do_write(0, fd, buf, len, 0); }
ssize_t pwrite(int fd, const void *buf, size_t len, off_t off) { return do_write(1, fd, buf, len, off); }
ssize_t pwrite64(int fd, const void *buf, size_t len, off64_t off) { return do_write(2, fd, buf, len, off); }

static int do_trunc(int which, int fd, off64_t len)
{
	long idx;
	int r, e;
	const char *p = tracked(fd);
	if (p && before(K_TRUNC, (size_t)len, p, NULL, &idx)) {
		e = errno;
		after(K_TRUNC, idx, -1, e);
		return -1;
	}
	if (which == 0) { RESOLVE(ftruncate); r = r_ftruncate(fd, (off_t)len); }
	else { RESOLVE(ftruncate64); r = r_ftruncate64(fd, len); }
	e = errno;
	if (p) after(K_TRUNC, idx, r, e);
	return r;
}

int ftruncate(int fd, off_t len) { return do_trunc(0, fd, len); }
int ftruncate64(int fd, off64_t len) { return do_trunc(1, fd, len); }

int close(int fd)
{
	long idx;
	int r, e, failing = 0;
	const char *p = tracked(fd);
	char *own = NULL;
	RESOLVE(close);
	if (p) {
		own = fdpath[fd];
		fdpath[fd] = NULL;
		failing = before(K_CLOSE, 0, own, NULL, &idx);
		e = errno;
	}
	r = r_close(fd); /* the descriptor is released even when the close "fails" */
	if (!failing) e = errno;
	if (own) {
		if (failing) r = -1;
		after(K_CLOSE, idx, r, e);
		free(own);
	}
	errno = e;
	return r;
}

int rename(const char *a, const char *b)
{
	long idx;
	int r, e;
	int hooked = under_root(a) || under_root(b);
	RESOLVE(rename);
	if (hooked && before(K_RENAME, 0, a, b, &idx)) {
		e = errno;
		after(K_RENAME, idx, -1, e);
		return -1;
	}
	r = r_rename(a, b);
	e = errno;
	if (hooked) after(K_RENAME, idx, r, e);
	return r;
}

int mkdir(const char *p, mode_t m)
{
	long idx;
	int r, e;
	int hooked = under_root(p);
	RESOLVE(mkdir);
	if (hooked && before(K_MKDIR, 0, p, NULL, &idx)) {
		e = errno;
		after(K_MKDIR, idx, -1, e);
		return -1;
	}
	r = r_mkdir(p, m);
	e = errno;
	if (hooked) after(K_MKDIR, idx, r, e);
	return r;
}

static int do_unlink(int which, const char *p)
{
	long idx;
	int r, e;
	int hooked = under_root(p);
	if (hooked && before(K_UNLINK, 0, p, NULL, &idx)) {
		e = errno;
		after(K_UNLINK, idx, -1, e);
		return -1;
	}
	if (which == 0) { RESOLVE(unlink); r = r_unlink(p); }
	else if (which == 1) { RESOLVE(remove); r = r_remove(p); }
	else { RESOLVE(rmdir); r = r_rmdir(p); }
	e = errno;
	if (hooked) after(K_UNLINK, idx, r, e);
	return r;
}

int unlink(const char *p) { return do_unlink(0, p); }
int remove(const char *p) { return do_unlink(1, p); }
int rmdir(const char *p) { return do_unlink(2, p); }

time_t time(time_t *t)
{
	RESOLVE(time);
	if (armed && fixed_time > 0) {
		if (t) *t = (time_t)fixed_time;
		return (time_t)fixed_time;
	}
	return r_time(t);
}

#include <sys/time.h>
static int (*r_gettimeofday)(struct timeval *, void *);
static int (*r_clock_gettime)(clockid_t, struct timespec *);

int gettimeofday(struct timeval *tv, void *tz)
{
	RESOLVE(gettimeofday);
	if (armed && fixed_time > 0 && tv) {
		tv->tv_sec = (time_t)fixed_time;
		tv->tv_usec = 0;
		return 0;
	}
	return r_gettimeofday(tv, tz);
}

int clock_gettime(clockid_t clk, struct timespec *ts)
{
	RESOLVE(clock_gettime);
	if (armed && fixed_time > 0 && clk == CLOCK_REALTIME && ts) {
		ts->tv_sec = (time_t)fixed_time;
		ts->tv_nsec = 0;
		return 0;
	}
	return r_clock_gettime(clk, ts);
}

void drfshim_arm(const char *rootdir, int logfd, int ackfd, long killat, int is_torn, long faultat, long faultat2,
                 int ferrno, int fpersist, unsigned pbefore, unsigned pafter, long ftime)
{
	int i;
	for (i = 0; i < MAXFD; i++) { free(fdpath[i]); fdpath[i] = NULL; }
	strncpy(root, rootdir, sizeof root - 1);
	root[sizeof root - 1] = 0;
	rootlen = strlen(root);
	log_fd = logfd;
	ack_fd = ackfd;
	opno = 0;
	kill_at = killat;
	torn = is_torn;
	fault_at = faultat;
	fault_at2 = faultat2;
	fault_errno = ferrno;
	fault_persist = fpersist;
	pause_before = pbefore;
	pause_after = pafter;
	fixed_time = ftime;
	armed = 1;
}

void drfshim_disarm(void) { armed = 0; }
long drfshim_count(void) { return opno; }

__attribute__((constructor)) static void drfshim_init(void)
{
	const char *r = getenv("DRFSHIM_ROOT");
	const char *plan = getenv("DRFSHIM_PLAN");
	long ka = -1, fa = -1, fa2 = -1, ft = 0;
	int tr = 0, fe = 0, fp = 0, lf = -1, af = -1;
	unsigned pb = 0, pa = 0;
	if (!r) return;
	if (plan)
		sscanf(plan, "%d %d %ld %d %ld %ld %d %d %u %u %ld", &lf, &af, &ka, &tr, &fa, &fa2, &fe, &fp, &pb, &pa, &ft);
	drfshim_arm(r, lf, af, ka, tr, fa, fa2, fe, fp, pb, pa, ft);
}
