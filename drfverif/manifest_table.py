"""Per-property manifest entries (level, technique, trusted base)."""

NOT_APPLICABLE = {}

_TB = ("Trusts the reference model (big-integer arithmetic in drfverif/rf.py), h5py for raw inspection and the system HDF5 "
       "1.10.8 linked into the staged C library; values outside the enumerated alphabets are not covered.")

CHECKS = {
    "C01": dict(
        level="model_checking", design_ref="DESIGN.md §2 C01",
        technique="explicit-state exploration of bounded write-call sequences on the real writer/reader in lock-step with a big-integer reference model (plus ASan/UBSan C-API replay)",
        text="All rf_write/rf_write_blocks sequences up to depth 3 (4 thorough) over a finite length/gap alphabet, times rate/cadence, storage mode, start position, every scalar type/byte order/complexity, and every file boundary in a window at realistic rates, are executed on the staged code and read back over edge-derived ranges; exhaustive within those bounds, nothing sampled.",
        note=_TB),
    "C02": dict(
        level="fault_enumeration", design_ref="DESIGN.md §2 C02, §1.2",
        technique="exhaustive crash-point enumeration: writer subprocess paused before every intercepted file-system operation (LD_PRELOAD shim), torn writes, real kills; tree inspected at every point",
        text="For each history the tree is inspected at every point between two file-system operations of the writer (equivalent to a kill there, cross-checked with real kills), and after every half-written write; exhaustive over the operation stream of the histories explored.",
        note="Crash = process death without page-cache loss; operation stream is that of the linked HDF5 1.10.8; histories are a fixed small set (3 layouts x modes)."),
    "C03": dict(
        level="exploration", design_ref="DESIGN.md §2 C03",
        technique="exhaustive grid enumeration through the real C conversion functions (ctypes) against an exact integer model",
        text="Complete small scope (n,d<=48/128, k<=4095/16383) plus the complete product of a magnitude-boundary grid, floor, ceil, round trip, monotonicity and the Python wrapper; every grid point is evaluated.",
        note="Between grid points at large magnitude nothing is claimed; the model is three lines of Python integer arithmetic."),
    "C04": dict(
        level="model_checking", design_ref="DESIGN.md §2 C04",
        technique="explicit-state exploration of write sequences with an on-disk layout oracle, plus exhaustive grid sweep of the real digital_rf_get_subdir_file via ctypes",
        text="Every file produced by every explored history is compared (name, subdirectory, stored index set, capacity) with the exact model; the naming function itself is swept over complete small scopes and over every index within +-2 samples of each file boundary in windows of thousands of files at realistic rates.",
        note=_TB),
    "C05": dict(
        level="model_checking", design_ref="DESIGN.md §2 C05",
        technique="explicit-state exploration of call histories with invalid calls inserted at every position; byte-level directory digest + differential comparison against the history without the rejected calls; ASan/UBSan C-API replay",
        text="Twelve kinds of invalid call are inserted at every position of every base history (depth<=2/3); rejection, unchanged files/getters and equivalence with the base history are checked on each; the same through the C API under sanitizers.",
        note=_TB + " Zero-length writes and the private extension module are outside the claim."),
    "C06": dict(
        level="model_checking", design_ref="DESIGN.md §2 C06",
        technique="explicit-state exploration (shared RF universes) with raw-h5py inspection of every produced file and regeneration of the properties file from every single file",
        text="Index rules, duplicated attributes, session attributes and regeneration are checked on every file of every explored history (layout, type and two-session universes).",
        note=_TB),
    "C07": dict(
        level="model_checking", design_ref="DESIGN.md §2 C07",
        technique="complete enumeration of element type x byte order x complexity x subchannels x gap layout x storage mode on the real writer, raw decoding of every slot",
        text="The product is finite and fully enumerated; unwritten slots are decoded in the file's own byte order; chunked-continuous output is compared byte-for-byte with gapped mode.",
        note=_TB),
    "C08": dict(
        level="model_checking", design_ref="DESIGN.md §2 C08",
        technique="metamorphic + model comparison of all reader queries over all (start,end) pairs of the edge set of each channel of a fixed sub-universe",
        text="For every channel all (s,e) pairs over its edge set, all cached split triples, every subchannel, vector reads for every edge start x length set, and per-sample properties are evaluated.",
        note=_TB + " Edge sets are capped at 28 edges per channel."),
    "C09": dict(
        level="model_checking", design_ref="DESIGN.md §2 C09",
        technique="exhaustive schedule enumeration at file-system-operation granularity: reader passes at every (creation point, observation point) pair; bound 1: reader pre-empted at each of its own FS calls while the writer advances",
        text="Deviation bound 0 complete for every pair (c,i); bound 1 complete for every (i,j,m) with m in {1 op, next rename, next-but-one rename, end} (every 4th i in quick).",
        note="Free-running processes are not separately sampled; decided at operation granularity on 3 histories (9 thorough); rests on C02's invariant that finalized bytes never change."),
    "C10": dict(
        level="fault_enumeration", design_ref="DESIGN.md §2 C10",
        technique="exhaustive single-fault schedule enumeration (every FS operation x {ENOSPC,EIO} x {once,persistent}) of a writer subprocess under the LD_PRELOAD shim, observed after every rename and after process exit",
        text="Every single-fault schedule of each history is one real execution; thorough adds all pairs of faults for one history (bound 2).",
        note="Faults are injected at libc level in the operation stream of the linked HDF5 1.10.8; unlink is not faulted."),
    "C11": dict(
        level="model_checking", design_ref="DESIGN.md §2 C11",
        technique="explicit-state exploration of all session sequences (directory x start position x write pattern / parameter mismatch) up to depth 3/4 with per-step hashes of finalized files and a union model",
        text="All session sequences of the bounded alphabet are executed on the staged writer; refused sessions/writes, unchanged finalized files and the multi-directory union read are checked on each.",
        note=_TB),
    "C12": dict(
        level="model_checking", design_ref="DESIGN.md §2 C12",
        technique="explicit-state exploration of metadata write histories (index subsets x write forms x duplicates) with all range/method/column queries against a dict model",
        text="Every subset of <=3/4 candidate indices per configuration x 4-6 write forms is written and every (s,e) over the edge set x fill method is read back with full value comparison.",
        note="Trusts the dict model and the value canonicalisation (numpy <-> Python, None == '')."),
    "C13": dict(
        level="exploration", design_ref="DESIGN.md §2 C13",
        technique="exhaustive grid: every file boundary in windows of consecutive files x 13 rates x 4 cadences x 2 epochs written through the real writer, located on disk and read back",
        text="Every boundary sample and its neighbours in the windows is written, located and queried.",
        note="Placement model T=(k*d//n)//fc*fc in Python integers."),
    "C14": dict(
        level="exploration", design_ref="DESIGN.md §2 C14",
        technique="exhaustive enumeration of a bounded tree grammar x option combinations x time windows against a set-algebra oracle, incl. vanishing-subdirectory faults",
        text="Every tree of the grammar is listed under the full flag product and all window pairs over its critical times; each listing is compared with the oracle.",
        note="The forward-fill extra is required only in pure metadata listings without a file exactly at start; trees are time-consistent."),
    "C15": dict(
        level="exploration", design_ref="DESIGN.md §2 C15",
        technique="complete product of event kinds x path grammar x include flags x windows x match_time dispatched to the real handler, oracle = the real lsdrf on a tree containing every path",
        text="The bounded grammar is enumerated completely, as the property demands.",
        note="Moves between two grammar-matching names of which only one is in the window are not judged."),
    "C16": dict(
        level="model_checking", design_ref="DESIGN.md §2 C16",
        technique="explicit-state BFS with canonical states over the real ringbuffer handler on real files; invariants on every transition; restored states cross-checked by full replays; the observer restart runs the real _restart/_verify_ringbuffer_files with a creation scheduled at each call boundary of the verification thread",
        text="BFS from the empty ringbuffer under 12/35 limit configurations to a state/depth cap (reported); every transition checks deletion legitimacy, order and accounting; the restart is a two-thread schedule with preemption bound 1 (one creation against one verification).",
        note="Equal canonical states have equal futures (no other mutable handler state); capped runs are reported as not exhaustive with the cap."),
    "C17": dict(
        level="model_checking", design_ref="DESIGN.md §2 C17",
        technique="exhaustive permutation of event histories x handler dispatch orders on the real mirror handlers with intercepted FS operations; invariants at every operation boundary and simulated crash at every boundary in move mode, each followed by a restarted mirror that is told about every file again",
        text="All permutations of the creation events (x perturbations x handler orders) are executed; crash points are enumerated over every boundary of selected histories.",
        note="One recording shape; crash = exception at an operation boundary; source and destination on one file system."),
    "C18": dict(
        level="exploration", design_ref="DESIGN.md §2 C18",
        technique="exhaustive grid of trees x commands x option combinations run through drf_command.main, oracle = real lsdrf evaluated before the command + byte/inode comparison",
        text="Every (tree, command, option set, source form) of the bounded grid is executed.",
        note="Placeholder files stand in for HDF5 except in the real-recording cases."),
    "C19": dict(
        level="model_checking", design_ref="DESIGN.md §2 C19",
        technique="explicit-state exploration of call histories (incl. rejected calls) with getters compared to the model after every call",
        text="All histories of the C01 layout universe in all five storage modes and the C05 histories are executed; counters and last file/dir are compared after every call and after close.",
        note=_TB),
    "C20": dict(
        level="model_checking", design_ref="DESIGN.md §2 C20",
        technique="exhaustive enumeration of call-granular interleavings of metadata/RF writes with reader creation; full query pass on every live and fresh reader after every call with tree snapshots",
        text="All call sequences up to length 4/6 over the 6-operation alphabet are executed.",
        note="Readers use default constructor arguments."),
}
