"""Per-property manifest entries (level, technique, trusted base)."""

NOT_APPLICABLE = {}

CHECKS = {
    "C01": dict(
        level="model_checking", design_ref="DESIGN.md §2 C01",
        technique="explicit-state exploration of bounded write-call sequences on the real writer/reader in lock-step with a big-integer reference model (plus ASan C-API replay)",
        text="All rf_write/rf_write_blocks sequences up to depth 3 (4 thorough) over a finite length/gap alphabet, times rate/cadence, storage mode, start position, every scalar type/byte order/complexity, and every file boundary in a window at realistic rates, are executed on the staged code and read back over edge-derived ranges; exhaustive within those bounds, nothing sampled.",
        note="Trusts the reference model (50 lines of integer arithmetic), h5py for raw inspection and the system HDF5 1.10.8; values outside the enumerated alphabets are not covered."),
}
