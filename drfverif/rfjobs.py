"""Generic worker for RF-history jobs shared by C04/C05/C06/C19 (and parts of others)."""

import os

from . import core, rf, rfrun


def run_hist_job(job):
    """job = dict(cfg=..., hists=[ops,...], oracles=[names], label=str, opts={})"""
    import digital_rf as drf

    seed = core.seed()
    part = core.new_part()
    cfg = rf.Cfg(**job["cfg"])
    oracles = job["oracles"]
    opts = job.get("opts", {})
    if "selfdesc" in oracles:
        # this process has recorded another channel before - another element type, byte order, shape and rate
        # (a recorder process usually writes several channels; nothing of one may leak into the files of the next)
        ptop = core.new_scratch("primer")
        try:
            pcfg = rf.Cfg(**{**dict(cfg), "kind": "f" if cfg["kind"] != "f" else "i", "size": 4 if cfg["size"] != 4 else 8,
                             "order": ">" if cfg["order"] == "<" else "<", "cplx": not cfg["cplx"], "nsub": cfg["nsub"] % 3 + 1,
                             "n": cfg["n"] + 1, "uuid": "primer-channel-of-another-kind"})
            os.makedirs(os.path.join(ptop, "other"))
            pw = rf.open_writer(drf, os.path.join(ptop, "other"), pcfg)
            pw.rf_write(rf.make_values(pcfg, seed, pcfg["start"], 3))
            pw.close()
        finally:
            core.rm(ptop)
    for ops in job["hists"]:
        ops = [tuple(o) if not isinstance(o, tuple) else o for o in ops]
        top = core.new_scratch(long_path=(part["evaluations"] % 4 == 1), via_symlink=(part["evaluations"] % 4 == 3 and set(oracles) <= {"counters"}))  # (readers resolve their
        # argument with os.path.abspath, which is documented to collapse 'link/..' lexically: writer-side oracles only)
        try:
            run = rfrun.execute(cfg, ops, seed, top, snapshot_rejects=opts.get("snapshot_rejects", False),
                                sparse_getters=opts.get("sparse_getters", False))
            part["evaluations"] += 1
            part["traces"] += 1
            part["transitions"] += len(ops)
            st = core.canon((cfg["n"], cfg["d"], cfg["fc"], cfg["sc"], cfg["cont"], cfg["comp"], cfg["cks"],
                             cfg["start"], sorted(run.model.written)))
            part["states"].add(st)
            part["nontrivial"].add(core.canon((st, [r.get("expect_reject") for r in run.records])))
            case = {"cfg": dict(cfg), "ops": ops, "seed": seed, "oracles": oracles, "opts": opts}
            errs = list(run.errors) if opts.get("lockstep_errors", True) else []
            if "layout" in oracles:
                errs += rfrun.oracle_layout(run)
            if "counters" in oracles:
                errs += rfrun.oracle_counters(run)
            if "selfdesc" in oracles:
                errs += rfrun.oracle_selfdesc(run, regen=opts.get("regen", True))
            if "roundtrip" in oracles or "roundtrip_full" in oracles or "roundtrip_runs" in oracles:
                try:
                    reader = drf.DigitalRFReader(top)
                    e2, nr = rfrun.oracle_roundtrip(run, reader, "linear" if "roundtrip" in oracles else
                                                    ("runs" if "roundtrip_runs" in oracles else "full"))
                    reader.close()
                    errs += e2
                    part["extra"]["reads"] = part["extra"].get("reads", 0) + nr
                except Exception as e:  # noqa: BLE001
                    if run.model.written:
                        errs.append(({"class": "reader_construct"}, repr(e)))
            part["outcomes"]["files=%d rejects=%d" % (len(run.model.files(cfg)),
                                                      sum(1 for r in run.records if r.get("expect_reject")))] += 1
            for key, detail in errs:
                part["violations"].append(core.Violation(key, case, detail))
            if not part["samples"]:
                part["samples"].append({"label": job.get("label"), "cfg": dict(cfg), "ops": ops,
                                        "files": sorted(run.model.files(cfg))[:6]})
        finally:
            core.rm(top)
    return part


def replay_hist(case):
    job = {"cfg": case["cfg"], "hists": [case["ops"]], "oracles": case["oracles"], "opts": case.get("opts", {})}
    os.environ["VERIF_SEED"] = str(case.get("seed", 0))
    part = run_hist_job(job)
    return [(v["key"], v["detail"]) for v in part["violations"]]
