"""Long-lived worker started under LD_PRELOAD=fsshim.so.  Imports the staged package once and
forks one child per run; the child arms the shim (ctypes) and executes an RF history through
the public Python writer, reporting per-call outcomes on the log pipe."""

import ctypes
import json
import os
import sys


def child(cmd, log_fd, ack_fd, shim):
    import numpy as np  # noqa: F401
    import digital_rf as drf

    from drfverif import rf

    cfg = rf.Cfg(**cmd["cfg"])
    ops = cmd["ops"]
    seed = cmd["seed"]
    plan = cmd["plan"]
    chdir = os.path.join(cmd["top"], cfg["ch"])
    os.makedirs(chdir, exist_ok=True)
    devnull = os.open(os.devnull, os.O_WRONLY)
    os.dup2(devnull, 2)
    os.dup2(devnull, 1)
    records = []

    def emit(tag, obj):
        os.write(log_fd, (tag + " " + json.dumps(obj) + "\n").encode())

    shim.drfshim_arm(cmd["root"].encode(), log_fd, ack_fd, plan["kill_at"], plan["torn"], plan["fault_at"], plan["fault_at2"],
                     plan["errno"], plan["persist"], plan["pause_before"], plan["pause_after"], plan["fixed_time"])
    w = None
    cursor = 0
    kept = []
    try:
        for i, op in enumerate(ops):
            op = tuple(op)
            rec = {"i": i, "op": op[0], "opno_before": shim.drfshim_count()}
            try:
                if op[0] == "open":
                    over = dict(op[1]) if len(op) > 1 else {}
                    if "start_delta" in over:
                        over["start"] = cfg["start"] + over.pop("start_delta")
                    cfg = rf.Cfg(**{**cfg, **over})
                    w = rf.open_writer(drf, chdir, cfg)
                    cursor = 0
                    rec["status"] = "ok"
                elif op[0] == "close":
                    if w is not None:
                        w.close()
                    rec["status"] = "ok"
                else:
                    g, b, length = rf.op_blocks(op, cursor)
                    arr = rf.values_for(cfg, seed, g, b, length)
                    ret = rf.do_write(w, cfg, seed, op, cursor, arr)
                    cursor = int(ret)
                    rec["status"] = "ok"
                    rec["ret"] = int(ret)
            except BaseException as e:  # noqa: BLE001
                rec["status"] = "exc"
                rec["exc"] = type(e).__name__
                # a recorder that logs / stores the error object keeps its traceback (and the frames it
                # references) alive while it goes on to close the writer
                kept.append(e)
            rec["opno_after"] = shim.drfshim_count()
            records.append(rec)
            emit("CALL", rec)
    finally:
        emit("RES", {"records": records})
    # leave through normal interpreter shutdown so that library exit handlers (HDF5) run,
    # exactly as in a real recording process
    sys.stdout.flush()
    sys.exit(0)


def main():
    log_fd = int(sys.argv[1])
    ack_fd = int(sys.argv[2])
    shim = ctypes.CDLL(sys.argv[3])
    shim.drfshim_arm.argtypes = [ctypes.c_char_p, ctypes.c_int, ctypes.c_int, ctypes.c_long, ctypes.c_int, ctypes.c_long,
                                 ctypes.c_long, ctypes.c_int, ctypes.c_int, ctypes.c_uint, ctypes.c_uint, ctypes.c_long]
    shim.drfshim_count.restype = ctypes.c_long
    sys.path.insert(0, sys.argv[4])  # stage dir
    sys.path.insert(1, sys.argv[5])  # /verif
    import numpy  # noqa: F401
    import h5py  # noqa: F401
    import digital_rf  # noqa: F401
    from drfverif import rf  # noqa: F401

    os.write(log_fd, b"READY\n")
    for line in sys.stdin:
        line = line.strip()
        if not line:
            continue
        cmd = json.loads(line)
        if cmd.get("quit"):
            break
        pid = os.fork()
        if pid == 0:
            try:
                child(cmd, log_fd, ack_fd, shim)
            except SystemExit:
                raise
            except BaseException:  # noqa: BLE001
                os._exit(70)
            os._exit(0)
        _, status = os.waitpid(pid, 0)
        if os.WIFSIGNALED(status):
            code = -os.WTERMSIG(status)
        else:
            code = os.WEXITSTATUS(status)
        os.write(log_fd, ("END %d\n" % code).encode())


if __name__ == "__main__":
    main()
