"""RF channel harness: configurations, deterministic sample values, the exact
reference model (Python big integers), execution of operation histories against
the staged writer, and raw inspection helpers.

A history is a list of operations:
  ("w",  rel_index, length)                       rf_write(arr, next_sample=rel_index)
  ("wn", length)                                   rf_write(arr)            (next available)
  ("wb", [g...], [b...], length)                   rf_write_blocks(arr, g, b)
  ("close",)
  ("open", cfg_overrides_dict)                     new session (new writer object)
"""

import calendar
import datetime
import os

import numpy as np

KINDS = {"i": "signed", "u": "unsigned", "f": "float"}


class Cfg(dict):
    """Writer configuration; plain dict so it is JSON-able in replay files."""

    DEFAULTS = dict(kind="i", size=2, order="<", cplx=False, nsub=1, n=10, d=3, fc=1000, sc=2,
                    start=0, cont=False, comp=0, cks=False, uuid="verif-session-0", ch="ch0")

    def __init__(self, **kw):
        super().__init__(self.DEFAULTS)
        self.update(kw)

    def real_dtype(self):
        return np.dtype("%s%s%d" % (self["order"] if self["size"] > 1 else "|", self["kind"], self["size"]))

    def sample_dtype(self):
        """dtype of one stored sample (as the reader returns it)."""
        rd = self.real_dtype()
        if not self["cplx"]:
            return rd
        if self["kind"] == "f":
            return np.dtype("%sc%d" % (self["order"], self["size"] * 2))
        return np.dtype([("r", rd), ("i", rd)])

    def unchunked(self):
        return bool(self["cont"]) and not self["comp"] and not self["cks"]

    def sample_bytes(self):
        return self["size"] * (2 if self["cplx"] else 1)


# ---------------------------------------------------------------- exact time/layout model
def file_ms(k, n, d, fc):
    """Start (ms) of the file holding absolute sample k."""
    return (k * d * 1000 // n) // fc * fc


def first_sample_of_ms(ms, n, d):
    """ceil(ms*n/(1000*d))"""
    return -((-ms * n) // (1000 * d))


def subdir_sec(k, n, d, sc):
    return (k * d // n) // sc * sc


def subdir_name(sec):
    return datetime.datetime.fromtimestamp(sec, tz=datetime.timezone.utc).strftime("%Y-%m-%dT%H-%M-%S")


def file_relpath(k, cfg):
    ms = file_ms(k, cfg["n"], cfg["d"], cfg["fc"])
    sd = subdir_name(subdir_sec(k, cfg["n"], cfg["d"], cfg["sc"]))
    return "%s/rf@%d.%03d.h5" % (sd, ms // 1000, ms % 1000)


def file_window(ms, cfg):
    """[first, last+1) absolute sample range of the file starting at ms."""
    return (first_sample_of_ms(ms, cfg["n"], cfg["d"]), first_sample_of_ms(ms + cfg["fc"], cfg["n"], cfg["d"]))


def epoch_index(y, mo, dd, cfg, h=0, mi=0, s=0):
    sec = calendar.timegm((y, mo, dd, h, mi, s))
    return -((-sec * cfg["n"]) // cfg["d"])


# ---------------------------------------------------------------- deterministic sample values
_M64 = (1 << 64) - 1


def _splitmix(x):
    x = (x + 0x9E3779B97F4A7C15) & _M64
    x = ((x ^ (x >> 30)) * 0xBF58476D1CE4E5B9) & _M64
    x = ((x ^ (x >> 27)) * 0x94D049BB133111EB) & _M64
    return x ^ (x >> 31)


def _special_bits(kind, size):
    bits = size * 8
    if kind == "u":
        return [0, (1 << bits) - 1, 1, 1 << (bits - 1)]
    if kind == "i":
        return [1 << (bits - 1), (1 << (bits - 1)) - 1, (1 << bits) - 1, 0]
    if size == 4:
        return [0x7F800000, 0xFF800000, 0x80000000, 0x7FA00001, 0x00000001, 0x7F7FFFFF]
    return [0x7FF0000000000000, 0xFFF0000000000000, 0x8000000000000000, 0x7FF4000000000001, 1,
            0x7FEFFFFFFFFFFFFF]


_VAL_CACHE = {}


def make_values(cfg, seed, abs_start, length):
    key = (cfg["kind"], cfg["size"], cfg["order"], cfg["cplx"], cfg["nsub"], seed, abs_start, length)
    v = _VAL_CACHE.get(key)
    if v is None:
        if len(_VAL_CACHE) > 20000:
            _VAL_CACHE.clear()
        v = _VAL_CACHE[key] = _make_values(cfg, seed, abs_start, length)
    return v.copy()


def _make_values(cfg, seed, abs_start, length):
    """Array (length, nsub) of cfg.sample_dtype(); value bits are a pure function of
    (seed, absolute index, subchannel, component) and include the extremes of the type."""
    size, kind = cfg["size"], cfg["kind"]
    ncomp = 2 if cfg["cplx"] else 1
    nsub = cfg["nsub"]
    spec = _special_bits(kind, size)
    mask = (1 << (size * 8)) - 1
    raw = np.empty((length, nsub, ncomp), dtype="<u%d" % size)
    if length:
        with np.errstate(over="ignore"):
            k = np.uint64(abs_start) + np.arange(length, dtype=np.uint64)
            nspec = min(len(spec), 6)
            spec_arr = np.array(spec[:nspec] + [0] * (11 - nspec), dtype=np.uint64)
            for c in range(nsub):
                for q in range(ncomp):
                    x = k * np.uint64(1000003) + np.uint64((c * 7919 + q * 104729 + seed * 2654435761) & _M64)
                    # splitmix64 (wrapping uint64 arithmetic == the & _M64 of the scalar definition)
                    x = x + np.uint64(0x9E3779B97F4A7C15)
                    x = (x ^ (x >> np.uint64(30))) * np.uint64(0xBF58476D1CE4E5B9)
                    x = (x ^ (x >> np.uint64(27))) * np.uint64(0x94D049BB133111EB)
                    h = x ^ (x >> np.uint64(31))
                    sel = (((k % np.uint64(11)) * np.uint64(3) + np.uint64((c * 5 + q * 7 + seed) % 11)) % np.uint64(11)).astype(np.int64)
                    v = np.where(sel < nspec, spec_arr[sel], h & np.uint64(mask))
                    raw[:, c, q] = v.astype(raw.dtype)
    # raw holds little-endian bit patterns; for a big-endian target swap the bytes in
    # memory and reinterpret, so the *value bits* (incl. NaN payloads) are exactly `raw`
    rd = cfg.real_dtype()
    if rd.byteorder == ">" and size > 1:
        arr = raw.byteswap().view(rd)
    else:
        arr = raw.view(rd)
    arr = np.ascontiguousarray(arr)
    return arr.view(cfg.sample_dtype()).reshape(length, nsub)


def row_bytes(arr):
    """list of per-sample byte strings (all subchannels) for bit-exact comparison."""
    a = np.ascontiguousarray(arr)
    if a.ndim == 1:
        a = a.reshape(-1, 1)
    w = a.dtype.itemsize * a.shape[1]
    raw = a.view(np.uint8).reshape(a.shape[0], w) if a.shape[0] else np.zeros((0, w), np.uint8)
    return [raw[i].tobytes() for i in range(raw.shape[0])]


def norm_rows(cfg, arr):
    """row bytes of a reader result in the channel's own byte order (np.concatenate inside the
    reader normalises multi-file blocks to native order; that is a representation detail)"""
    sd = cfg.sample_dtype()
    if arr.dtype != sd and arr.dtype.kind == sd.kind and arr.dtype.itemsize == sd.itemsize and arr.dtype.names == sd.names:
        arr = arr.astype(sd)
    return row_bytes(arr)


def fill_row(cfg):
    """Bytes of one never-written slot in continuous-unchunked mode (documented fill)."""
    rd = cfg.real_dtype()
    if cfg["kind"] == "f":
        one = np.array([np.nan], dtype=rd)
    elif cfg["kind"] == "i":
        one = np.array([np.iinfo(rd).min], dtype=rd)
    else:
        one = np.array([0], dtype=rd)
    return one.tobytes() * ((2 if cfg["cplx"] else 1) * cfg["nsub"])


def rows_equal_fill(cfg, row):
    """A slot reads as 'missing': NaN in every component (any NaN payload), min, or 0."""
    rd = cfg.real_dtype()
    vals = np.frombuffer(row, dtype=rd)
    if cfg["kind"] == "f":
        return bool(np.all(np.isnan(vals)))
    if cfg["kind"] == "i":
        return bool(np.all(vals == np.iinfo(rd).min))
    return bool(np.all(vals == 0))


# ---------------------------------------------------------------- reference model
class Model:
    """Exact model of one channel directory across sessions."""

    def __init__(self):
        self.written = {}  # abs index -> row bytes
        self.finalized = set()  # file start ms finalized by *earlier* sessions
        self.session_files = set()  # file ms touched in the current session
        self.cfg = None
        self.cursor = 0  # relative next available sample
        self.total_written = 0
        self.total_gap = 0
        self.last_abs = None
        self.open = False
        self.file_sessions = {}  # ms -> (uuid, seq)
        self.seq = -1

    # --- sessions
    def open_session(self, cfg):
        self.cfg = cfg
        self.cursor = 0
        self.total_written = 0
        self.total_gap = 0
        self.last_abs = None
        self.open = True
        self.session_files = set()
        self.seq = -1

    def close_session(self):
        self.finalized |= self.session_files
        self.session_files = set()
        self.open = False

    # --- validation (what must be rejected, C05)
    def check_blocks(self, g, b, length):
        if length < 1 or not g or len(g) != len(b):
            return "malformed"
        if g[0] < self.cursor:
            return "past"
        if b[0] != 0:
            return "first_offset"
        for i in range(1, len(g)):
            if b[i] <= b[i - 1]:
                return "offsets_order"
            if g[i] <= g[i - 1]:
                return "indices_order"
            if b[i] - b[i - 1] > g[i] - g[i - 1]:
                return "overlap"
        if b[-1] >= length:
            return "offset_past_end"
        return None

    def place(self, g, b, length):
        """absolute index of each of the `length` samples"""
        out = []
        bi = 0
        for j in range(length):
            while bi + 1 < len(b) and b[bi + 1] <= j:
                bi += 1
            out.append(self.cfg["start"] + g[bi] + (j - b[bi]))
        return out

    def apply_write(self, g, b, rows):
        """Apply an accepted write; returns (n_stored, blocked_ms or None).  A write
        that has to enter a file period finalized by an earlier session stores only
        the samples before that period (prefix rule) and then fails."""
        cfg = self.cfg
        idxs = self.place(g, b, len(rows))
        stored = 0
        blocked = None
        for k, row in zip(idxs, rows):
            ms = file_ms(k, cfg["n"], cfg["d"], cfg["fc"])
            if ms in self.finalized:
                blocked = ms
                break
            if ms not in self.session_files:
                self.session_files.add(ms)
                self.seq += 1
                self.file_sessions[ms] = (cfg["uuid"], self.seq, cfg["start"])
            assert k not in self.written, "model: overwrite"
            self.written[k] = row
            stored += 1
            self.last_abs = k
        if blocked is None:
            new_cursor = g[-1] + (len(rows) - b[-1])
            self.total_gap += new_cursor - self.cursor - len(rows)
            self.total_written += len(rows)
            self.cursor = new_cursor
        return stored, blocked

    # --- what a reader must see
    def exposed(self, cfg=None):
        """dict abs index -> row bytes or None (None = fill slot of an existing
        continuous-unchunked file)."""
        cfg = cfg or self.cfg
        if not cfg.unchunked():
            return dict(self.written)
        out = {}
        for ms in {file_ms(k, cfg["n"], cfg["d"], cfg["fc"]) for k in self.written}:
            lo, hi = file_window(ms, cfg)
            for k in range(lo, hi):
                out[k] = self.written.get(k)
        return out

    def runs(self, s=None, e=None, cfg=None):
        """maximal runs [(start, [rows...])] of exposed indices within [s, e]."""
        ex = self.exposed(cfg)
        ks = sorted(k for k in ex if (s is None or k >= s) and (e is None or k <= e))
        out = []
        for k in ks:
            if out and out[-1][0] + len(out[-1][1]) == k:
                out[-1][1].append(ex[k])
            else:
                out.append((k, [ex[k]]))
        return out

    def files(self, cfg=None):
        """dict relpath -> sorted list of written abs indices stored in that file"""
        cfg = cfg or self.cfg
        out = {}
        for k in self.written:
            out.setdefault(file_relpath(k, cfg), []).append(k)
        for v in out.values():
            v.sort()
        return out


# ---------------------------------------------------------------- execution against the real writer
def np_dtype_for_writer(cfg):
    return cfg.real_dtype()


def open_writer(drf, chdir, cfg):
    # the boolean options are documented as truth values: callers pass bools, 0/1, other non-zero integers
    # or numpy scalars.  The form is a pure function of the configuration (so replays are identical).
    form = cfg.get("flagform")
    if form is None:
        form = (cfg["size"] + cfg["nsub"] + cfg["n"] + len(cfg["uuid"])) % 3
    cont, cks = cfg["cont"], cfg["cks"]
    if form == 1:
        cont, cks = int(bool(cont)), int(bool(cks))
    elif form == 2:
        cont, cks = (2 if cont else 0), (np.uint8(255) if cks else np.uint8(0))
    return drf.DigitalRFWriter(
        chdir, cfg.real_dtype(), cfg["sc"], cfg["fc"], cfg["start"], cfg["n"], cfg["d"],
        uuid_str=cfg["uuid"], compression_level=cfg["comp"], checksum=cks, is_complex=cfg["cplx"],
        num_subchannels=cfg["nsub"], is_continuous=cont, marching_periods=False,
    )


def getters(w):
    return (
        w.get_next_available_sample(),
        w.get_total_samples_written(),
        w.get_total_gap_samples(),
        w.get_last_file_written(),
        w.get_last_dir_written(),
    )


def op_blocks(op, cursor):
    """normalise a write op to (g, b, length)"""
    if op[0] == "w":
        return [op[1]], [0], op[2]
    if op[0] == "wn":
        return [cursor], [0], op[1]
    if op[0] == "wb":
        return list(op[1]), list(op[2]), op[3]
    raise ValueError(op)


def values_for(cfg, seed, g, b, length):
    """data array for a write: each block's values are keyed by the absolute index they are
    written to.  Filled slice-wise into an array of the exact sample dtype (np.concatenate
    would silently normalise the byte order)."""
    sd = cfg.sample_dtype()
    if length <= 0:
        return np.empty((0, cfg["nsub"]), dtype=sd)
    out = make_values(cfg, seed, cfg["start"] + 7, length)  # defined filler for malformed layouts
    assert out.dtype == sd
    nb = min(len(g), len(b))
    for i in range(nb):
        lo = b[i]
        hi = b[i + 1] if i + 1 < nb else length
        lo, hi = max(lo, 0), min(hi, length)
        if hi <= lo:
            continue
        out[lo:hi] = make_values(cfg, seed, cfg["start"] + g[i], hi - lo)
    return np.ascontiguousarray(out)


def do_write(w, cfg, seed, op, cursor, arr=None):
    g, b, length = op_blocks(op, cursor)
    if arr is None:
        arr = values_for(cfg, seed, g, b, length)
    if cfg["cplx"] and (int(g[0]) + length) % 3 == 0 and arr.shape[0]:
        # complex channels also accept real-typed interleaved I/Q: shape (N, 2*nsub), or for one subchannel a flat
        # buffer of 2N values as np.frombuffer hands it over (the same bytes, so the model is unchanged)
        arr = np.ascontiguousarray(arr).view(cfg.real_dtype())
        if cfg["nsub"] == 1:
            arr = arr.reshape(-1)
    if op[0] == "w":
        return w.rf_write(arr, g[0])
    if op[0] == "wn":
        return w.rf_write(arr)
    if min(g) < 0:
        # a caller computing indices in signed arithmetic: plain lists / int64 arrays
        return w.rf_write_blocks(arr, np.array(g, dtype=np.int64), list(b))
    ga, ba = np.array(g, dtype=np.uint64), np.array(b, dtype=np.uint64)
    if (len(g) + int(g[0])) % 2 == 0:
        # every other call hands over strided (non C-contiguous) uint64 index arrays, e.g. edges[::2]
        tg = np.zeros(2 * len(g), dtype=np.uint64)
        tb = np.full(2 * len(b), 2**40, dtype=np.uint64)
        tg[::2], tb[::2] = ga, ba
        ga, ba = tg[::2], tb[::2]
    return w.rf_write_blocks(arr, ga, ba)


# ---------------------------------------------------------------- reading back
def read_runs(reader, ch, s, e, sub=None):
    d = reader.read(s, e, ch, sub)
    return [(int(k), v) for k, v in d.items()]


def compare_runs(cfg, got, exp, sub=None):
    """got: [(start, ndarray)], exp: [(start, [row bytes | None])] -> None or error text"""
    if [(k, len(v)) for k, v in got] != [(k, len(v)) for k, v in exp]:
        return "block structure: got %s expected %s" % ([(k, len(v)) for k, v in got],
                                                          [(k, len(v)) for k, v in exp])
    sd = cfg.sample_dtype()
    for (k, arr), (_, rows) in zip(got, exp):
        if arr.dtype != sd:
            # h5py hands back compound (complex integer) data in native byte order; the claim is
            # about values, so accept a pure byte-order difference and compare in the file's order
            if arr.dtype.kind != sd.kind or arr.dtype.itemsize != sd.itemsize or arr.dtype.names != sd.names:
                return "dtype %s != %s" % (arr.dtype, sd)
            arr = arr.astype(sd)
        exp_ndim = 2 if sub is None else 1
        if arr.ndim != exp_ndim or (sub is None and arr.shape[1] != cfg["nsub"]):
            return "shape %s" % (arr.shape,)
        gb = row_bytes(arr)
        w = sd.itemsize
        for j, (g, x) in enumerate(zip(gb, rows)):
            if x is None:
                if sub is None:
                    ok = rows_equal_fill(cfg, g)
                else:
                    ok = rows_equal_fill(cfg, g)
                if not ok:
                    return "index %d: fill expected, got bytes %s" % (k + j, g.hex())
            else:
                xx = x if sub is None else x[sub * w:(sub + 1) * w]
                if g != xx:
                    return "index %d: got bytes %s expected %s" % (k + j, g.hex(), xx.hex())
    return None


def list_tree(top):
    out = []
    for root, dirs, files in os.walk(top):
        dirs.sort()
        for f in sorted(files):
            out.append(os.path.relpath(os.path.join(root, f), top))
    return out
