"""Digital Metadata harness: exact model, value menu, canonicalisation."""

import datetime
import os

import numpy as np


def file_ts(k, n, d, fc):
    return (k * d // n) // fc * fc


def first_of_ts(ts, n, d):
    return -((-ts * n) // d)


def subdir_of(ts, sc):
    return datetime.datetime.fromtimestamp(ts // sc * sc, tz=datetime.timezone.utc).strftime("%Y-%m-%dT%H-%M-%S")


def relpath(k, n, d, fc, sc, prefix):
    t = file_ts(k, n, d, fc)
    return "%s/%s@%d.h5" % (subdir_of(t, sc), prefix, t)


def value_for(k):
    """per-sample metadata value (nested), a pure function of the index"""
    return {
        "a": int(k % 1000003),
        "b": float(k) / 7.0,
        "c": "s%d" % k,
        "place": "Troms\u00f8 \u00b5s %d" % (k % 7),  # text is not limited to ASCII
        "flag": bool(k % 2),
        "none": None,
        "vec5": np.arange(5, dtype=np.int32) + (k % 11),
        "mat": (np.arange(6, dtype=np.float64).reshape(2, 3) * (k % 5 + 1)),
        "nest": {"x": int(k % 97), "deep": {"z": "z%d" % (k % 13), "w": np.array([k % 3, 1, 2], dtype=np.int64)}},
    }


CONSTANT_FIELDS = {
    "const_str": "same for all",
    "const_vec": np.array([1.5, 2.5, 3.5, 4.5, 5.5, 6.5, 7.5]),  # len 7 never equals a batch size (<= 4)
    "const_num": 42,
}


def canon_val(v):
    if isinstance(v, dict):
        return {str(k): canon_val(x) for k, x in v.items()}
    if v is None:
        return ""
    if isinstance(v, bytes):
        # text that was written as str comes back as str; raw bytes are a different value
        return ("bytes", v.hex())
    if isinstance(v, np.ndarray):
        if v.dtype.kind in "SU":
            return [canon_val(x) for x in v.tolist()]
        return ("arr", list(v.shape), [canon_val(x) for x in v.ravel().tolist()])
    if isinstance(v, np.generic):
        return canon_val(v.item())
    if isinstance(v, (list, tuple)):
        return ("arr", [len(v)], [canon_val(x) for x in v])
    if isinstance(v, bool):
        return bool(v)
    if isinstance(v, float):
        return float(v)
    return v


def dict_form(ks):
    """data for DigitalMetadataWriter.write(ks, dict): per-sample fields as length-N sequences,
    constants as is.  Returns (data, expected per-sample values) with the documented distribution rule
    applied by an independent implementation."""
    N = len(ks)
    vals = [value_for(k) for k in ks]
    data = {
        "a": np.array([v["a"] for v in vals]),
        "b": [v["b"] for v in vals],
        "c": [v["c"] for v in vals],
        "place": [v["place"] for v in vals],
        "flag": np.array([v["flag"] for v in vals]),
        "vec5": np.stack([v["vec5"] for v in vals]),
        "mat": np.stack([v["mat"] for v in vals]),
        "nest": {"x": [v["nest"]["x"] for v in vals],
                 "deep": {"z": [v["nest"]["deep"]["z"] for v in vals],
                          "w": np.stack([v["nest"]["deep"]["w"] for v in vals])}},
    }
    data["none"] = None
    data.update(CONSTANT_FIELDS)
    exp = []
    for i in range(N):
        exp.append(distribute(data, i, N))
    return data, exp


def distribute(data, i, N):
    out = {}
    for k, v in data.items():
        if isinstance(v, dict):
            out[k] = distribute(v, i, N)
        elif not isinstance(v, str) and hasattr(v, "__len__") and len(v) == N:
            out[k] = v[i]
        else:
            out[k] = v
    return out


def list_form(ks):
    vals = [dict(value_for(k), **CONSTANT_FIELDS) for k in ks]
    return vals, vals


class MdModel:
    def __init__(self, n, d, fc, sc, prefix):
        self.n, self.d, self.fc, self.sc, self.prefix = n, d, fc, sc, prefix
        self.samples = {}

    def path(self, k):
        return relpath(k, self.n, self.d, self.fc, self.sc, self.prefix)

    def expected_read(self, s, e, method=None):
        ks = sorted(k for k in self.samples if s <= k <= e)
        if method in ("ffill", "pad"):
            prior = [k for k in self.samples if k <= s]
            if prior:
                p = max(prior)
                if p not in ks:
                    ks = [p] + ks
        return ks

    def bounds(self):
        return (min(self.samples), max(self.samples))


def open_writer(dmd, mdir, m):
    os.makedirs(mdir, exist_ok=True)
    import digital_rf as drf

    return drf.DigitalMetadataWriter(mdir, m.sc, m.fc, m.n, m.d, m.prefix)
