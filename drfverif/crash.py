"""Shared observation code for the shim-based checks (C02, C09, C10): inspect a live or
post-mortem tree against the model."""

import hashlib
import os

import numpy as np

from . import rf


def tree_files(top):
    out = []
    for root, dirs, files in os.walk(top):
        dirs.sort()
        for f in sorted(files):
            out.append(os.path.relpath(os.path.join(root, f), top))
    return out


def sha(path):
    with open(path, "rb") as f:
        return hashlib.sha256(f.read()).hexdigest()


def decode_final_file(path, cfg):
    """-> (dict abs index -> row bytes, error text or None) using raw h5py"""
    import h5py

    try:
        with h5py.File(path, "r") as f:
            idx = f["rf_data_index"][...]
            data = f["rf_data"][...]
    except Exception as e:  # noqa: BLE001
        return None, "cannot open/read: %r" % (e,)
    nrows = data.shape[0]
    if idx.ndim != 2 or idx.shape[0] < 1 or idx.shape[1] != 2:
        return None, "index shape %s" % (idx.shape,)
    if int(idx[0, 1]) != 0:
        return None, "first offset %d" % int(idx[0, 1])
    rows = rf.norm_rows(cfg, data) if nrows else []
    out = {}
    for r in range(idx.shape[0]):
        st, off = int(idx[r, 0]), int(idx[r, 1])
        end = int(idx[r + 1, 1]) if r + 1 < idx.shape[0] else nrows
        if end < off or off > nrows:
            return None, "index row %d offsets %d..%d with %d rows" % (r, off, end, nrows)
        if r > 0 and (st <= int(idx[r - 1, 0]) or off <= int(idx[r - 1, 1])):
            return None, "index row %d not increasing" % r
        for j in range(off, end):
            k = st + (j - off)
            if k in out:
                return None, "index %d described twice" % k
            out[k] = rows[j]
    return out, None


class Observer:
    """Checks the invariants of C02 on successive states of one tree."""

    def __init__(self, top, cfg):
        self.top = top
        self.cfg = cfg
        self.first_sha = {}
        self.seen_points = 0

    def observe(self, allowed, label, expect_all=None, check_reader=True, fill_ok=False):
        """allowed: dict abs index -> row bytes that may legitimately be on disk at this point.
        expect_all: if given, dict of samples that MUST all be readable (after a clean close).
        Returns list of (key, detail)."""
        import digital_rf as drf

        cfg = self.cfg
        errs = []
        top = self.top
        chdir = os.path.join(top, cfg["ch"])
        files = tree_files(top)
        finals = [f for f in files if os.path.basename(f).startswith("rf@") and f.endswith(".h5")]
        union = {}
        sane = None
        if allowed:
            margin = 10000 + 3 * (cfg["n"] * cfg["fc"] // (cfg["d"] * 1000) + 1)  # continuous files expose their whole window
            sane = (min(allowed) - margin, max(allowed) + margin)
        for rel in finals:
            p = os.path.join(top, rel)
            h = sha(p)
            if rel in self.first_sha and self.first_sha[rel] != h:
                errs.append(({"class": "final_file_bytes_changed"}, "%s: %s changed after it first appeared" % (label, rel)))
            self.first_sha.setdefault(rel, h)
            content, err = decode_final_file(p, cfg)
            if err:
                errs.append(({"class": "final_file_invalid"}, "%s: %s %s" % (label, rel, err)))
                continue
            base = os.path.basename(rel)
            S, mmm = base[3:-3].split(".")
            lo, hi = rf.file_window(int(S) * 1000 + int(mmm), cfg)
            for k, row in content.items():
                if not (lo <= k < hi):
                    errs.append(({"class": "final_file_sample_outside_window"}, "%s: %s holds %d" % (label, rel, k)))
                    break
                if k in allowed:
                    if allowed[k] != row and not (fill_ok and cfg.unchunked() and rf.rows_equal_fill(cfg, row)):
                        errs.append(({"class": "final_file_wrong_value"}, "%s: %s index %d" % (label, rel, k)))
                        break
                elif not (cfg.unchunked() and rf.rows_equal_fill(cfg, row)):
                    errs.append(({"class": "final_file_unwritten_sample"}, "%s: %s presents index %d which was not written" % (label, rel, k)))
                    break
            if sane is not None and any(not (sane[0] <= k <= sane[1]) for k in content):
                continue  # garbage indices were reported above; do not send the reader over an astronomic range
            union.update(content)
        for rel in self.first_sha:
            if rel not in finals:
                errs.append(({"class": "final_file_vanished"}, "%s: %s" % (label, rel)))
        if not check_reader:
            return errs, union
        # listings never show tmp files
        try:
            listed = drf.lsdrf(top)
            if any(os.path.basename(p).startswith("tmp.") for p in listed):
                errs.append(({"class": "tmp_file_listed"}, "%s: %s" % (label, [p for p in listed if "tmp." in p][:2])))
        except Exception as e:  # noqa: BLE001
            errs.append(({"class": "lsdrf_raised", "exc": type(e).__name__}, "%s: %r" % (label, e)))
        # reader
        try:
            r = drf.DigitalRFReader(top)
        except ValueError as e:
            if "No channels found" in str(e) and not os.path.exists(os.path.join(chdir, "drf_properties.h5")):
                r = None  # no channel yet: legitimately nothing to read
                if finals:
                    # ... unless data files have been published: the channel properties are put in place
                    # before the first data file, so published samples are always readable
                    errs.append(({"class": "data_files_published_without_channel_properties"},
                                 "%s: %d data file(s) under their final names but no drf_properties.h5 - no reader can open the channel" % (label, len(finals))))
            else:
                errs.append(({"class": "reader_constructor_failed", "exc": "ValueError"}, "%s: %r" % (label, e)))
                return errs, union
        except Exception as e:  # noqa: BLE001
            k = {"class": "reader_constructor_failed", "exc": type(e).__name__}
            if os.path.exists(os.path.join(chdir, "drf_properties.h5")) and not finals:
                k["site"] = "properties_file_in_place"
            errs.append((k, "%s: %r" % (label, e)))
            return errs, union
        if r is not None:
            try:
                b = r.get_bounds(cfg["ch"])
                if union:
                    if tuple(b) != (min(union), max(union)):
                        errs.append(({"class": "reader_bounds"}, "%s: bounds %r, finalized files hold [%d,%d]" % (label, b, min(union), max(union))))
                    got = {}
                    for k, arr in r.read(min(union) - 1 if min(union) > 0 else 0, max(union) + 1, cfg["ch"]).items():
                        for j, row in enumerate(rf.norm_rows(cfg, arr)):
                            got[int(k) + j] = row
                    if got != union:
                        miss = sorted(set(union) - set(got))[:3]
                        extra = sorted(set(got) - set(union))[:3]
                        errs.append(({"class": "reader_not_union_of_finalized_files"}, "%s: missing %s extra %s" % (label, miss, extra)))
                elif b != (None, None):
                    errs.append(({"class": "reader_bounds"}, "%s: bounds %r with no finalized file" % (label, b)))
                r.get_continuous_blocks(0 if not union else min(union), 10 if not union else max(union), cfg["ch"])
            except Exception as e:  # noqa: BLE001
                errs.append(({"class": "reader_raised", "exc": type(e).__name__}, "%s: %r" % (label, e)))
            finally:
                r.close()
        if expect_all is not None:
            tmp = [f for f in files if os.path.basename(f).startswith("tmp.")]
            if tmp:
                errs.append(({"class": "tmp_left_after_close"}, "%s: %s" % (label, tmp)))
            miss = [k for k in expect_all if union.get(k) != expect_all[k]]
            if miss:
                errs.append(({"class": "written_sample_not_readable_after_close"}, "%s: %s" % (label, sorted(miss)[:4])))
        return errs, union


def model_prefixes(cfg, ops):
    """allowed[i] = samples written by ops[0..i] (inclusive), final = all"""
    m = rf.Model()
    out = []
    cur = cfg
    for op in ops:
        op = tuple(op)
        if op[0] == "open":
            over = dict(op[1]) if len(op) > 1 else {}
            if "start_delta" in over:
                over["start"] = cur["start"] + over.pop("start_delta")
            cur = rf.Cfg(**{**cur, **over})
            m.open_session(cur)
        elif op[0] == "close":
            m.close_session()
        else:
            g, b, length = rf.op_blocks(op, m.cursor)
            if m.check_blocks(g, b, length) is None:  # (an invalid call is refused and stores nothing)
                arr = rf.values_for(cur, core_seed(), g, b, length)
                m.apply_write(g, b, rf.row_bytes(arr))
        out.append(dict(m.written))
    return out, m


def core_seed():
    from . import core

    return core.seed()
