"""Build /repo's *working tree* (C library, extension, Python package) into a
content-addressed staging directory and make it importable.

Nothing here uses the wheel installed in /venv: the baseline suite imports that
wheel (a different commit), so every check stages /repo itself.
"""

import fcntl
import hashlib
import os
import re
import shutil
import subprocess
import sys
import sysconfig

REPO = os.environ.get("DRFVERIF_REPO", "/repo")
VERIF = os.path.dirname(os.path.dirname(os.path.abspath(__file__)))
BUILD = os.path.join(VERIF, ".build")
NATIVE = os.path.join(VERIF, "native")
HDF5_INC = "/usr/include/hdf5/serial"
HDF5_LIBDIR = "/usr/lib/x86_64-linux-gnu/hdf5/serial"
GUARD_ENV = "DIGITAL_RF_VERIF"


class BuildError(Exception):
    pass


def _src_files():
    out = []
    for sub, pat in (
        ("c/lib", r".*\.c$"),
        ("c/include", r".*\.h$"),
        ("python/lib", r".*\.[ch]$"),
        ("python/digital_rf", r".*\.py$"),
    ):
        d = os.path.join(REPO, sub)
        for name in sorted(os.listdir(d)):
            if re.match(pat, name) and name != "_version.py":
                out.append(os.path.join(d, name))
    for name in sorted(os.listdir(NATIVE)):
        out.append(os.path.join(NATIVE, name))
    out.append(os.path.join(REPO, "CMakeLists.txt"))
    out.append(os.path.abspath(__file__))  # the build recipe itself
    return out


def tree_hash():
    h = hashlib.sha256()
    for p in _src_files():
        h.update(p.encode())
        with open(p, "rb") as f:
            h.update(f.read())
    return h.hexdigest()[:16]


def _version_from_cmake():
    txt = open(os.path.join(REPO, "CMakeLists.txt")).read()
    m = re.search(r"else\(\)\s*set\(digital_rf_VERSION\s+([0-9.]+)\)", txt)
    if not m:
        m = re.search(r"set\(digital_rf_VERSION\s+([0-9]+\.[0-9]+\.[0-9]+)\)", txt)
    return m.group(1) if m else "2.6.11"


def _run(cmd, what):
    r = subprocess.run(cmd, capture_output=True, text=True)
    if r.returncode != 0:
        raise BuildError("%s failed:\n%s\n%s" % (what, " ".join(cmd), r.stderr[-4000:]))


def _build(dest):
    tmp = dest + ".tmp.%d" % os.getpid()
    shutil.rmtree(tmp, ignore_errors=True)
    pkg = os.path.join(tmp, "digital_rf")
    os.makedirs(pkg)
    srcpkg = os.path.join(REPO, "python", "digital_rf")
    for name in os.listdir(srcpkg):
        if name.endswith(".py") and name != "_version.py":
            shutil.copy2(os.path.join(srcpkg, name), os.path.join(pkg, name))
    ver = _version_from_cmake()
    vt = tuple(int(x) for x in ver.split("."))
    with open(os.path.join(pkg, "_version.py"), "w") as f:
        f.write(
            "__version__ = version = %r\n__version_tuple__ = version_tuple = %r\n"
            "__commit_id__ = commit_id = None\n" % (ver, vt)
        )
    import numpy

    pyinc = sysconfig.get_paths()["include"]
    npinc = numpy.get_include()
    ext = sysconfig.get_config_var("EXT_SUFFIX")
    guard = ["-D%s=1" % GUARD_ENV]
    common_inc = ["-I" + os.path.join(REPO, "c", "include"), "-I" + HDF5_INC]
    # python extension (C library compiled in, all symbols exported)
    _run(
        ["gcc", "-O1", "-g", "-shared", "-fPIC", "-w"]
        + guard
        + common_inc
        + ["-I" + pyinc, "-I" + npinc,
           os.path.join(REPO, "c", "lib", "rf_write_hdf5.c"),
           os.path.join(REPO, "python", "lib", "py_rf_write_hdf5.c"),
           "-o", os.path.join(pkg, "_py_rf_write_hdf5" + ext),
           "-L" + HDF5_LIBDIR, "-lhdf5", "-lm"],
        "extension build",
    )
    # ctypes helper around private C functions
    _run(
        ["gcc", "-O1", "-g", "-shared", "-fPIC", "-w"]
        + common_inc
        + [os.path.join(REPO, "c", "lib", "rf_write_hdf5.c"),
           os.path.join(NATIVE, "drf_helper.c"),
           "-o", os.path.join(tmp, "libdrfhelper.so"),
           "-L" + HDF5_LIBDIR, "-lhdf5", "-lm"],
        "helper build",
    )
    # sanitizer-built C-API replay driver
    _run(
        ["clang", "-O1", "-g", "-fsanitize=address,undefined",
         "-fno-sanitize-recover=undefined", "-fno-omit-frame-pointer", "-w"]
        + common_inc
        + [os.path.join(REPO, "c", "lib", "rf_write_hdf5.c"),
           os.path.join(NATIVE, "drf_cdriver.c"),
           "-o", os.path.join(tmp, "drf_cdriver"),
           "-L" + HDF5_LIBDIR, "-lhdf5", "-lm"],
        "C driver build",
    )
    # plain C driver (for use under the LD_PRELOAD shim; ASan and preload do not mix)
    _run(
        ["gcc", "-O1", "-g", "-w"]
        + common_inc
        + [os.path.join(REPO, "c", "lib", "rf_write_hdf5.c"),
           os.path.join(NATIVE, "drf_cdriver.c"),
           "-o", os.path.join(tmp, "drf_cdriver_plain"),
           "-L" + HDF5_LIBDIR, "-lhdf5", "-lm"],
        "plain C driver build",
    )
    _run(
        ["gcc", "-O2", "-g", "-shared", "-fPIC", "-Wall",
         os.path.join(NATIVE, "fsshim.c"), "-o", os.path.join(tmp, "fsshim.so"), "-ldl"],
        "shim build",
    )
    _run(
        ["gcc", "-O2", "-g", "-shared", "-fPIC", "-Wall",
         os.path.join(NATIVE, "gilprobe.c"), "-o", os.path.join(tmp, "gilprobe.so"), "-ldl"],
        "lock probe build",
    )
    os.rename(tmp, dest)


def ensure():
    """Return the staging directory for the current /repo working tree."""
    os.makedirs(BUILD, exist_ok=True)
    h = tree_hash()
    dest = os.path.join(BUILD, "stage-" + h)
    if os.path.isdir(dest):
        try:
            os.utime(dest, None)
        except OSError:
            pass
        return dest
    lock = open(os.path.join(BUILD, ".lock"), "w")
    fcntl.flock(lock, fcntl.LOCK_EX)
    try:
        if not os.path.isdir(dest):
            # keep disk use bounded: drop stages that have not been used for hours (never a recent one:
            # another check process may be running from it right now)
            import time

            for name in os.listdir(BUILD):
                pth = os.path.join(BUILD, name)
                if name.startswith("stage-") and name != "stage-" + h:
                    try:
                        if time.time() - os.path.getmtime(pth) > 6 * 3600:
                            shutil.rmtree(pth, ignore_errors=True)
                    except OSError:
                        pass
            _build(dest)
    finally:
        fcntl.flock(lock, fcntl.LOCK_UN)
        lock.close()
    return dest


_active = None


def activate():
    """Stage and put the staged package first on sys.path; returns stage dir."""
    global _active
    if _active:
        return _active
    st = ensure()
    if "digital_rf" in sys.modules:
        raise RuntimeError("digital_rf imported before staging")
    sys.path.insert(0, st)
    os.environ.setdefault("HDF5_USE_FILE_LOCKING", "FALSE")
    import digital_rf  # noqa: F401

    assert os.path.dirname(digital_rf.__file__) == os.path.join(st, "digital_rf"), digital_rf.__file__
    _active = st
    return st


if __name__ == "__main__":
    try:
        print(ensure())
    except BuildError as e:
        print(e, file=sys.stderr)
        sys.exit(2)
