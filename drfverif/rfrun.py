"""Execute RF histories on the staged writer in lock-step with the model, and
the oracles shared by C01/C04/C05/C06/C07/C08/C19."""

import hashlib
import os

import numpy as np

from . import core, rf


def dir_digest(path):
    """recursive (relpath, size, sha256) digest of a directory"""
    h = hashlib.sha256()
    for rel in rf.list_tree(path):
        fp = os.path.join(path, rel)
        h.update(rel.encode())
        try:
            with open(fp, "rb") as f:
                data = f.read()
        except OSError:
            data = b"<unreadable>"
        h.update(str(len(data)).encode())
        h.update(hashlib.sha256(data).digest())
    return h.hexdigest()


class Run:
    """Result of one history."""

    def __init__(self):
        self.records = []  # per op dict
        self.model = rf.Model()
        self.top = None
        self.chdir = None
        self.cfg = None
        self.errors = []  # (key, detail) lock-step disagreements
        self.kept_exceptions = []


def execute(cfg, ops, seed, top, snapshot_rejects=False, after_each=None, sparse_getters=False):
    """Run `ops` (see rf.py) on channel <top>/<ch>.  The model is stepped alongside.
    Lock-step disagreements (accept/reject, return value) are recorded in run.errors."""
    import digital_rf as drf

    run = Run()
    run.top = top
    run.cfg = cfg
    chdir = os.path.join(top, cfg["ch"])
    run.chdir = chdir
    os.makedirs(chdir, exist_ok=True)
    model = run.model
    w = None
    cur_cfg = cfg
    try:
        w = rf.open_writer(drf, chdir, cur_cfg)
        model.open_session(cur_cfg)
    except Exception as e:  # noqa: BLE001
        run.errors.append(({"class": "open_failed"}, repr(e)))
        return run
    for i, op in enumerate(ops):
        rec = {"op": op}
        if op[0] == "close":
            if w is not None:
                w.close()
                rec["getters"] = rf.getters(w)
            model.close_session()
            rec["status"] = "ok"
        elif op[0] == "open":
            if w is not None:
                w.close()
                model.close_session()
            over = dict(op[1])
            if "start_delta" in over:
                over["start"] = cur_cfg["start"] + over.pop("start_delta")
            cur_cfg = rf.Cfg(**{**cur_cfg, **over})
            run.cfg = cur_cfg if over.keys() <= {"uuid", "start"} else run.cfg
            try:
                w = rf.open_writer(drf, chdir, cur_cfg)
                model.open_session(cur_cfg)
                rec["status"] = "ok"
            except Exception as e:  # noqa: BLE001
                w = None
                rec["status"] = "exc"
                rec["exc"] = type(e).__name__
        else:
            g, b, length = rf.op_blocks(op, model.cursor)
            reason = model.check_blocks(g, b, length) if op[0] != "raw" else None
            rec["expect_reject"] = reason
            arr = rf.values_for(cur_cfg, seed, g, b, length)
            # sparse mode: the getters are only queried around the first call, as a monitoring loop that
            # looked once and never again would (values cached inside the writer must not go stale)
            ask = (not sparse_getters) or i == 0
            before = rf.getters(w) if ask else None
            dig0 = dir_digest(chdir) if (snapshot_rejects and reason) else None
            try:
                ret = rf.do_write(w, cur_cfg, seed, op, model.cursor, arr)
                rec["status"] = "ok"
                rec["ret"] = int(ret)
            except Exception as e:  # noqa: BLE001
                rec["status"] = "exc"
                rec["exc"] = type(e).__name__
                run.kept_exceptions.append(e)  # the caller keeps the error object (and its traceback) around
            rec["getters_before"] = before
            rec["getters"] = rf.getters(w) if ask else None
            if reason:
                if rec["status"] == "ok":
                    run.errors.append(({"class": "invalid_write_accepted", "reason": reason},
                                       "op %d %r accepted (returned %r)" % (i, op, rec.get("ret"))))
                    # keep the model in step with what the writer did if we can
                else:
                    if dig0 is not None:
                        rec["dir_unchanged"] = dir_digest(chdir) == dig0
            else:
                rows = rf.row_bytes(arr)
                stored, blocked = model.apply_write(g, b, rows)
                rec["blocked"] = blocked
                if blocked is None and rec["status"] != "ok":
                    run.errors.append(({"class": "valid_write_rejected"},
                                       "op %d %r raised %s" % (i, op, rec.get("exc"))))
                if blocked is not None and rec["status"] == "ok":
                    run.errors.append(({"class": "finalized_period_entered"},
                                       "op %d %r succeeded but needs finalized file %d" % (i, op, blocked)))
                rec["model"] = (model.cursor, model.total_written, model.total_gap, model.last_abs)
        run.records.append(rec)
        if after_each is not None:
            after_each(run, i, rec, w)
    run.after_close = None
    if w is not None:
        w.close()
        # calls on the closed writer are refused and change nothing it reports
        g_closed = rf.getters(w)
        arr1 = rf.values_for(cur_cfg, seed, [model.cursor + 3], [0], 2)
        for name_, call_ in (("rf_write", lambda: w.rf_write(arr1, model.cursor + 3)),
                             ("rf_write_blocks", lambda: w.rf_write_blocks(arr1, [model.cursor + 3], [0]))):
            try:
                call_()
                run.errors.append(({"class": "write_on_closed_writer_accepted", "call": name_}, "%s on a closed writer returned normally" % name_))
            except Exception as e:  # noqa: BLE001
                run.kept_exceptions.append(e)
        if rf.getters(w) != g_closed:
            run.errors.append(({"class": "closed_writer_getters_changed"}, "refused calls on the closed writer changed its getters: %r -> %r" % (g_closed, rf.getters(w))))
        if model.open:
            # what the writer reports once it has been closed (the getters must stay available)
            run.after_close = (rf.getters(w), model.cursor, model.total_written, model.total_gap, model.last_abs,
                               any(r.get("blocked") is not None for r in run.records))
        model.close_session()
    run.writer = w
    return run


# ---------------------------------------------------------------- oracles
def edge_set(model, cfg, band=2, limit=None):
    """first/last sample of every touched file and every written run, +-1, bounds +-band"""
    ex = model.exposed(cfg)
    if not ex:
        return []
    ks = sorted(ex)
    edges = set()
    runs = model.runs(cfg=cfg)
    for st, rows in runs:
        for x in (st - 1, st, st + 1, st + len(rows) - 2, st + len(rows) - 1, st + len(rows)):
            edges.add(x)
    wr = sorted(model.written)
    prev = None
    for k in wr:
        if prev is None or k != prev + 1:
            edges.update((k - 1, k))
            if prev is not None:
                edges.update((prev, prev + 1))
        prev = k
    for ms in {rf.file_ms(k, cfg["n"], cfg["d"], cfg["fc"]) for k in ks}:
        lo, hi = rf.file_window(ms, cfg)
        edges.update((lo - 1, lo, lo + 1, hi - 2, hi - 1, hi))
    lo, hi = ks[0], ks[-1]
    for dlt in range(1, band + 1):
        edges.update((lo - dlt, hi + dlt))
    edges = sorted(e for e in edges if e >= 1)
    if limit and len(edges) > limit:
        # keep extremes and an even subsample (stated in evidence as a cap by the caller)
        step = len(edges) / float(limit)
        edges = sorted({edges[int(i * step)] for i in range(limit)} | {edges[0], edges[-1]})
    return edges


def oracle_roundtrip(run, reader, ranges="all", edge_limit=None):
    """C01: read(s,e) == model runs, bit for bit.  Returns list of (key, detail)."""
    cfg = run.cfg
    model = run.model
    ch = cfg["ch"]
    out = []
    nreads = 0
    ex = model.exposed(cfg)
    if not ex:
        return out, 0
    lo, hi = min(ex), max(ex)
    # full range first
    pairs = [(max(lo - 2, 0), hi + 2)]
    if ranges == "runs":
        # recordings with decades between blocks: the candidate-file enumeration of one read over everything
        # would not finish; read around every block instead
        pairs = [(max(st - 2, 0), st + len(rows) + 1) for st, rows in model.runs(cfg=cfg)]
    elif ranges != "full":
        edges = edge_set(model, cfg, limit=edge_limit)
        if ranges == "all":
            pairs += [(s, e) for s in edges for e in edges if s <= e]
        else:  # "linear": every edge as start and as end
            pairs += [(s, hi + 2) for s in edges] + [(max(lo - 2, 0), e) for e in edges] + [(e, e) for e in edges]
    pairs = [(s, e) for s, e in pairs if 0 <= s <= e]
    for s, e in pairs:
        try:
            got = rf.read_runs(reader, ch, s, e)
        except Exception as ex_:  # noqa: BLE001
            out.append(({"class": "read_raised", "exc": type(ex_).__name__}, "read(%d,%d): %r" % (s, e, ex_)))
            nreads += 1
            continue
        nreads += 1
        err = rf.compare_runs(cfg, got, model.runs(s, e, cfg))
        if err:
            out.append(({"class": "roundtrip_mismatch"}, "read(%d,%d): %s" % (s, e, err)))
            if len(out) > 3:
                break
    return out, nreads


def oracle_layout(run):
    """C04 + parts of C06: inspect every file on disk with raw h5py against the model."""
    import h5py

    cfg = run.cfg
    model = run.model
    out = []
    exp_files = model.files(cfg)
    disk = [p for p in rf.list_tree(run.chdir) if not p.endswith("_properties.h5")]
    tmp = [p for p in disk if os.path.basename(p).startswith("tmp.")]
    if tmp:
        out.append(({"class": "tmp_left_after_close"}, repr(tmp)))
    final = sorted(p for p in disk if p not in tmp)
    if final != sorted(exp_files):
        out.append(({"class": "file_set_mismatch"},
                    "on disk %s, model %s" % (final, sorted(exp_files))))
        return out
    seen = {}
    n, d, fc, sc = cfg["n"], cfg["d"], cfg["fc"], cfg["sc"]
    for rel in final:
        fp = os.path.join(run.chdir, rel)
        with h5py.File(fp, "r") as f:
            idx = f["rf_data_index"][...]
            nrows = f["rf_data"].shape[0]
        sd, base = rel.split("/")
        S, mmm = base[3:-3].split(".")
        fms = int(S) * 1000 + int(mmm)
        lo, hi = rf.file_window(fms, cfg)
        stored = []
        for r in range(idx.shape[0]):
            st, off = int(idx[r, 0]), int(idx[r, 1])
            end = int(idx[r + 1, 1]) if r + 1 < idx.shape[0] else nrows
            stored.extend(range(st, st + (end - off)))
        for k in stored:
            if rf.file_ms(k, n, d, fc) != fms:
                out.append(({"class": "sample_in_wrong_file"}, "%s holds index %d (belongs to ms %d)"
                            % (rel, k, rf.file_ms(k, n, d, fc))))
                break
            if rf.subdir_name(rf.subdir_sec(k, n, d, sc)) != sd:
                out.append(({"class": "sample_in_wrong_subdir"}, "%s holds index %d" % (rel, k)))
                break
            if k in seen:
                out.append(({"class": "index_in_two_files"}, "%d in %s and %s" % (k, seen[k], rel)))
                break
            seen[k] = rel
        if nrows > hi - lo:
            out.append(({"class": "file_over_capacity"}, "%s rows %d window %d" % (rel, nrows, hi - lo)))
        if cfg.unchunked():
            want = list(range(lo, hi))
        else:
            want = exp_files[rel]
        if stored != want:
            out.append(({"class": "file_contents_mismatch"}, "%s stores %s model %s" % (rel, stored[:12], want[:12])))
    return out


def oracle_counters(run):
    """C19: after every accepted/rejected call the getters match the model."""
    out = []
    cfg = run.cfg
    for i, rec in enumerate(run.records):
        if rec["op"][0] in ("close", "open"):
            continue
        if rec.get("blocked") is not None:
            break  # state after a refused finalized-period entry is not claimed
        g = rec["getters"]
        if g is None:
            if rec["status"] == "ok" and not rec.get("expect_reject") and rec.get("ret") != rec["model"][0]:
                out.append(({"class": "return_value"}, "op %d %r returned %r model %r" % (i, rec["op"], rec.get("ret"), rec["model"][0])))
            continue
        if rec["status"] == "exc" or rec.get("expect_reject"):
            if rec["status"] == "exc" and g != rec["getters_before"]:
                out.append(({"class": "getters_changed_by_rejected_call"},
                            "op %d %r: %r -> %r" % (i, rec["op"], rec["getters_before"], g)))
            continue
        cur, tot, gap, last_abs = rec["model"]
        if rec.get("ret") != cur:
            out.append(({"class": "return_value"}, "op %d %r returned %r model %r" % (i, rec["op"], rec.get("ret"), cur)))
        if g[0] != cur or g[1] != tot or g[2] != gap or g[0] != g[1] + g[2]:
            out.append(({"class": "counters"}, "op %d %r getters %r model next=%d written=%d gap=%d"
                        % (i, rec["op"], g[:3], cur, tot, gap)))
        if last_abs is not None:
            rel = rf.file_relpath(last_abs, cfg)
            want_file = os.path.realpath(os.path.join(run.chdir, rel))
            want_dir = os.path.realpath(os.path.dirname(want_file))
            gf = os.path.realpath(g[3]) if g[3] else g[3]
            gd = os.path.realpath(g[4]) if g[4] else g[4]
            if gf != want_file or gd != want_dir:
                out.append(({"class": "last_file_dir"}, "op %d %r last file %r dir %r model %r"
                            % (i, rec["op"], g[3], g[4], want_file)))
    ac = getattr(run, "after_close", None)
    if ac is not None and not ac[5]:
        g, cur, tot, gap, last_abs, _ = ac
        if (g[0], g[1], g[2]) != (cur, tot, gap):
            out.append(({"class": "counters_after_close"}, "after close getters %r model %r" % (g[:3], (cur, tot, gap))))
        if last_abs is not None:
            rel = rf.file_relpath(last_abs, run.model.cfg or cfg)
            want_file = os.path.realpath(os.path.join(run.chdir, rel))
            gf = os.path.realpath(g[3]) if g[3] else g[3]
            gd = os.path.realpath(g[4]) if g[4] else g[4]
            if gf != want_file or gd != os.path.realpath(os.path.dirname(want_file)):
                out.append(({"class": "last_file_dir_after_close"}, "after close last file %r dir %r, most recently written sample is in %r"
                            % (g[3], g[4], want_file)))
    return out


PROP_ATTRS = ["H5Tget_class", "H5Tget_size", "H5Tget_order", "H5Tget_precision", "H5Tget_offset",
              "subdir_cadence_secs", "file_cadence_millisecs", "sample_rate_numerator",
              "sample_rate_denominator", "is_complex", "num_subchannels", "is_continuous", "epoch",
              "digital_rf_time_description", "digital_rf_version"]


def _attrs(obj):
    out = {}
    for k, v in obj.attrs.items():
        try:
            v = v.item()
        except AttributeError:
            pass
        if isinstance(v, bytes):
            v = v.decode("ascii")
        out[k] = v
    return out


def oracle_selfdesc(run, regen=True):
    """C06: every finalized file is interpretable on its own; attributes duplicate the channel
    properties; session attributes; regeneration of drf_properties.h5 from every file."""
    import h5py
    import digital_rf as drf

    cfg, model = run.cfg, run.model
    out = []
    chdir = run.chdir
    pfile = os.path.join(chdir, "drf_properties.h5")
    with h5py.File(pfile, "r") as f:
        props = _attrs(f)
    if sorted(props) != sorted(PROP_ATTRS):
        out.append(({"class": "properties_attr_set"}, "drf_properties.h5 has %s" % sorted(props)))
    exp = {"subdir_cadence_secs": cfg["sc"], "file_cadence_millisecs": cfg["fc"], "sample_rate_numerator": cfg["n"],
           "sample_rate_denominator": cfg["d"], "is_complex": int(cfg["cplx"]), "num_subchannels": cfg["nsub"],
           "is_continuous": int(cfg["cont"]), "H5Tget_size": cfg["size"],
           "H5Tget_order": 1 if (cfg["order"] == ">" and cfg["size"] > 1) else 0,
           "H5Tget_class": 1 if cfg["kind"] == "f" else 0, "H5Tget_precision": cfg["size"] * 8, "H5Tget_offset": 0,
           "epoch": "1970-01-01T00:00:00Z"}
    for k, v in exp.items():
        if props.get(k) != v:
            out.append(({"class": "properties_value", "attr": k}, "drf_properties.h5 %s=%r expected %r" % (k, props.get(k), v)))
    files = sorted(p for p in rf.list_tree(chdir) if "/rf@" in p)
    per_session = {}
    fattrs = {}
    for rel in files:
        with h5py.File(os.path.join(chdir, rel), "r") as f:
            idx = f["rf_data_index"][...].astype(object)
            nrows = f["rf_data"].shape[0]
            a = _attrs(f["rf_data"])
        fattrs[rel] = a
        base = os.path.basename(rel)
        S, mmm = base[3:-3].split(".")
        fms = int(S) * 1000 + int(mmm)
        lo, hi = rf.file_window(fms, cfg)
        # --- index rules
        bad = None
        if idx.shape[0] < 1 or idx.shape[1] != 2:
            bad = "shape %s" % (idx.shape,)
        else:
            if int(idx[0, 1]) != 0:
                bad = "first offset %d" % int(idx[0, 1])
            for r in range(1, idx.shape[0]):
                di = int(idx[r, 0]) - int(idx[r - 1, 0])
                do = int(idx[r, 1]) - int(idx[r - 1, 1])
                if di <= 0 or do <= 0:
                    bad = "row %d not strictly increasing" % r
                elif do > di:
                    bad = "row %d overlaps previous block" % r
            if int(idx[-1, 1]) >= nrows:
                bad = "last offset %d beyond data (%d rows)" % (int(idx[-1, 1]), nrows)
            if nrows > hi - lo:
                bad = "%d rows exceed window of %d" % (nrows, hi - lo)
            last_end = int(idx[-1, 0]) + (nrows - int(idx[-1, 1]))
            if int(idx[0, 0]) < lo or last_end > hi:
                bad = "indices [%d,%d) outside window [%d,%d)" % (int(idx[0, 0]), last_end, lo, hi)
        if bad:
            out.append(({"class": "index_rules"}, "%s: %s" % (rel, bad)))
        # --- duplicated attributes
        for k in PROP_ATTRS:
            if a.get(k) != props.get(k):
                out.append(({"class": "attr_mismatch", "attr": k}, "%s %s=%r properties %r" % (rel, k, a.get(k), props.get(k))))
        want = model.file_sessions.get(fms)
        if want is None:
            out.append(({"class": "unexpected_file"}, rel))
            continue
        uuid, seq, sess_start = want
        it = a.get("init_utc_timestamp")
        if it is None or int(it) != sess_start * cfg["d"] // cfg["n"]:
            out.append(({"class": "init_utc_timestamp"}, "%s init_utc_timestamp %r, session start second %d"
                        % (rel, it, sess_start * cfg["d"] // cfg["n"])))
        if a.get("uuid_str") != uuid:
            out.append(({"class": "uuid"}, "%s uuid %r expected %r" % (rel, a.get("uuid_str"), uuid)))
        per_session.setdefault(uuid, []).append((fms, a.get("sequence_num"), a.get("init_utc_timestamp"), rel))
        for k in ("sequence_num", "init_utc_timestamp", "computer_time", "uuid_str"):
            if k not in a:
                out.append(({"class": "attr_missing", "attr": k}, rel))
    for uuid, lst in per_session.items():
        lst.sort()
        seqs = [x[1] for x in lst]
        if any(b <= a for a, b in zip(seqs, seqs[1:])):
            out.append(({"class": "sequence_num_order"}, "session %s: %s" % (uuid, lst)))
        inits = {x[2] for x in lst}
        if len(inits) != 1:
            out.append(({"class": "init_utc_varies"}, "session %s: %s" % (uuid, sorted(inits))))
    if not regen or not files:
        return out
    # --- regeneration from every single file (with an unfinished tmp. file of a killed recorder next to it)
    for rel in files:
        scratch = core.new_scratch("regen")
        try:
            ch2 = os.path.join(scratch, cfg["ch"])
            os.makedirs(os.path.join(ch2, os.path.dirname(rel)))
            os.link(os.path.join(chdir, rel), os.path.join(ch2, rel))
            for junk in ("tmp.rf@0000000001.000.h5", "tmp.rf@9999999999.000.h5", "tmp." + os.path.basename(rel)):
                with open(os.path.join(ch2, os.path.dirname(rel), junk), "wb") as fj:
                    fj.write(b"\x89HDF\r\n\x1a\n" + b"\0" * 40)  # truncated HDF5 file
            try:
                drf.recreate_properties_file(ch2)
            except Exception as e:  # noqa: BLE001
                out.append(({"class": "recreate_failed"}, "%s: %r" % (rel, e)))
                continue
            with h5py.File(os.path.join(ch2, "drf_properties.h5"), "r") as f:
                p2 = _attrs(f)
            if p2 != props:
                diff = {k: (p2.get(k), props.get(k)) for k in set(p2) | set(props) if p2.get(k) != props.get(k)}
                out.append(({"class": "recreated_properties_differ"}, "%s: %s" % (rel, diff)))
        finally:
            core.rm(scratch)
    # --- full channel: delete, recreate, reader must behave identically
    try:
        r1 = drf.DigitalRFReader(run.top)
        b1 = r1.get_bounds(cfg["ch"])
        d1 = [(k, v.tobytes(), str(v.dtype)) for k, v in rf.read_runs(r1, cfg["ch"], b1[0], b1[1])]
        p1 = dict(r1.get_properties(cfg["ch"]))
        r1.close()
        saved = open(pfile, "rb").read()
        os.unlink(pfile)
        try:
            drf.recreate_properties_file(chdir)
            r2 = drf.DigitalRFReader(run.top)
            b2 = r2.get_bounds(cfg["ch"])
            d2 = [(k, v.tobytes(), str(v.dtype)) for k, v in rf.read_runs(r2, cfg["ch"], b2[0], b2[1])]
            p2 = dict(r2.get_properties(cfg["ch"]))
            r2.close()
            if b1 != b2 or d1 != d2:
                out.append(({"class": "regenerated_channel_reads_differently"}, "bounds %s vs %s" % (b1, b2)))
            if {k: str(v) for k, v in p1.items()} != {k: str(v) for k, v in p2.items()}:
                out.append(({"class": "regenerated_properties_differ"}, "%s vs %s" % (p1, p2)))
        finally:
            with open(pfile, "wb") as f:
                f.write(saved)
    except Exception as e:  # noqa: BLE001
        out.append(({"class": "regeneration_raised"}, repr(e)))
    return out
