"""Execute RF histories on the staged writer in lock-step with the model, and
the oracles shared by C01/C04/C05/C06/C07/C08/C19."""

import hashlib
import os

import numpy as np

from . import core, rf


def dir_digest(path):
    """recursive (relpath, size, sha256) digest of a directory"""
    h = hashlib.sha256()
    for rel in rf.list_tree(path):
        fp = os.path.join(path, rel)
        h.update(rel.encode())
        try:
            with open(fp, "rb") as f:
                data = f.read()
        except OSError:
            data = b"<unreadable>"
        h.update(str(len(data)).encode())
        h.update(hashlib.sha256(data).digest())
    return h.hexdigest()


class Run:
    """Result of one history."""

    def __init__(self):
        self.records = []  # per op dict
        self.model = rf.Model()
        self.top = None
        self.chdir = None
        self.cfg = None
        self.errors = []  # (key, detail) lock-step disagreements


def execute(cfg, ops, seed, top, snapshot_rejects=False, after_each=None):
    """Run `ops` (see rf.py) on channel <top>/<ch>.  The model is stepped alongside.
    Lock-step disagreements (accept/reject, return value) are recorded in run.errors."""
    import digital_rf as drf

    run = Run()
    run.top = top
    run.cfg = cfg
    chdir = os.path.join(top, cfg["ch"])
    run.chdir = chdir
    os.makedirs(chdir, exist_ok=True)
    model = run.model
    w = None
    cur_cfg = cfg
    try:
        w = rf.open_writer(drf, chdir, cur_cfg)
        model.open_session(cur_cfg)
    except Exception as e:  # noqa: BLE001
        run.errors.append(({"class": "open_failed"}, repr(e)))
        return run
    for i, op in enumerate(ops):
        rec = {"op": op}
        if op[0] == "close":
            if w is not None:
                w.close()
                rec["getters"] = rf.getters(w)
            model.close_session()
            rec["status"] = "ok"
        elif op[0] == "open":
            if w is not None:
                w.close()
                model.close_session()
            cur_cfg = rf.Cfg(**{**cur_cfg, **op[1]})
            try:
                w = rf.open_writer(drf, chdir, cur_cfg)
                model.open_session(cur_cfg)
                rec["status"] = "ok"
            except Exception as e:  # noqa: BLE001
                w = None
                rec["status"] = "exc"
                rec["exc"] = type(e).__name__
        else:
            g, b, length = rf.op_blocks(op, model.cursor)
            reason = model.check_blocks(g, b, length) if op[0] != "raw" else None
            rec["expect_reject"] = reason
            arr = rf.values_for(cur_cfg, seed, g, b, length)
            before = rf.getters(w)
            dig0 = dir_digest(chdir) if (snapshot_rejects and reason) else None
            try:
                ret = rf.do_write(w, cur_cfg, seed, op, model.cursor, arr)
                rec["status"] = "ok"
                rec["ret"] = int(ret)
            except Exception as e:  # noqa: BLE001
                rec["status"] = "exc"
                rec["exc"] = type(e).__name__
            rec["getters_before"] = before
            rec["getters"] = rf.getters(w)
            if reason:
                if rec["status"] == "ok":
                    run.errors.append(({"class": "invalid_write_accepted", "reason": reason},
                                       "op %d %r accepted (returned %r)" % (i, op, rec.get("ret"))))
                    # keep the model in step with what the writer did if we can
                else:
                    if dig0 is not None:
                        rec["dir_unchanged"] = dir_digest(chdir) == dig0
            else:
                rows = rf.row_bytes(arr)
                stored, blocked = model.apply_write(g, b, rows)
                rec["blocked"] = blocked
                if blocked is None and rec["status"] != "ok":
                    run.errors.append(({"class": "valid_write_rejected"},
                                       "op %d %r raised %s" % (i, op, rec.get("exc"))))
                if blocked is not None and rec["status"] == "ok":
                    run.errors.append(({"class": "finalized_period_entered"},
                                       "op %d %r succeeded but needs finalized file %d" % (i, op, blocked)))
                rec["model"] = (model.cursor, model.total_written, model.total_gap, model.last_abs)
        run.records.append(rec)
        if after_each is not None:
            after_each(run, i, rec, w)
    if w is not None:
        w.close()
        model.close_session()
    run.writer = w
    return run


# ---------------------------------------------------------------- oracles
def edge_set(model, cfg, band=2, limit=None):
    """first/last sample of every touched file and every written run, +-1, bounds +-band"""
    ex = model.exposed(cfg)
    if not ex:
        return []
    ks = sorted(ex)
    edges = set()
    runs = model.runs(cfg=cfg)
    for st, rows in runs:
        for x in (st - 1, st, st + 1, st + len(rows) - 2, st + len(rows) - 1, st + len(rows)):
            edges.add(x)
    wr = sorted(model.written)
    prev = None
    for k in wr:
        if prev is None or k != prev + 1:
            edges.update((k - 1, k))
            if prev is not None:
                edges.update((prev, prev + 1))
        prev = k
    for ms in {rf.file_ms(k, cfg["n"], cfg["d"], cfg["fc"]) for k in ks}:
        lo, hi = rf.file_window(ms, cfg)
        edges.update((lo - 1, lo, lo + 1, hi - 2, hi - 1, hi))
    lo, hi = ks[0], ks[-1]
    for dlt in range(1, band + 1):
        edges.update((lo - dlt, hi + dlt))
    edges = sorted(e for e in edges if e >= 1)
    if limit and len(edges) > limit:
        # keep extremes and an even subsample (stated in evidence as a cap by the caller)
        step = len(edges) / float(limit)
        edges = sorted({edges[int(i * step)] for i in range(limit)} | {edges[0], edges[-1]})
    return edges


def oracle_roundtrip(run, reader, ranges="all", edge_limit=None):
    """C01: read(s,e) == model runs, bit for bit.  Returns list of (key, detail)."""
    cfg = run.cfg
    model = run.model
    ch = cfg["ch"]
    out = []
    nreads = 0
    ex = model.exposed(cfg)
    if not ex:
        return out, 0
    lo, hi = min(ex), max(ex)
    # full range first
    pairs = [(max(lo - 2, 0), hi + 2)]
    if ranges != "full":
        edges = edge_set(model, cfg, limit=edge_limit)
        if ranges == "all":
            pairs += [(s, e) for s in edges for e in edges if s <= e]
        else:  # "linear": every edge as start and as end
            pairs += [(s, hi + 2) for s in edges] + [(max(lo - 2, 0), e) for e in edges] + [(e, e) for e in edges]
    pairs = [(s, e) for s, e in pairs if 0 <= s <= e]
    for s, e in pairs:
        try:
            got = rf.read_runs(reader, ch, s, e)
        except Exception as ex_:  # noqa: BLE001
            out.append(({"class": "read_raised", "exc": type(ex_).__name__}, "read(%d,%d): %r" % (s, e, ex_)))
            nreads += 1
            continue
        nreads += 1
        err = rf.compare_runs(cfg, got, model.runs(s, e, cfg))
        if err:
            out.append(({"class": "roundtrip_mismatch"}, "read(%d,%d): %s" % (s, e, err)))
            if len(out) > 3:
                break
    return out, nreads


def oracle_layout(run):
    """C04 + parts of C06: inspect every file on disk with raw h5py against the model."""
    import h5py

    cfg = run.cfg
    model = run.model
    out = []
    exp_files = model.files(cfg)
    disk = [p for p in rf.list_tree(run.chdir) if not p.endswith("_properties.h5")]
    tmp = [p for p in disk if os.path.basename(p).startswith("tmp.")]
    if tmp:
        out.append(({"class": "tmp_left_after_close"}, repr(tmp)))
    final = sorted(p for p in disk if p not in tmp)
    if final != sorted(exp_files):
        out.append(({"class": "file_set_mismatch"},
                    "on disk %s, model %s" % (final, sorted(exp_files))))
        return out
    seen = {}
    n, d, fc, sc = cfg["n"], cfg["d"], cfg["fc"], cfg["sc"]
    for rel in final:
        fp = os.path.join(run.chdir, rel)
        with h5py.File(fp, "r") as f:
            idx = f["rf_data_index"][...]
            nrows = f["rf_data"].shape[0]
        sd, base = rel.split("/")
        S, mmm = base[3:-3].split(".")
        fms = int(S) * 1000 + int(mmm)
        lo, hi = rf.file_window(fms, cfg)
        stored = []
        for r in range(idx.shape[0]):
            st, off = int(idx[r, 0]), int(idx[r, 1])
            end = int(idx[r + 1, 1]) if r + 1 < idx.shape[0] else nrows
            stored.extend(range(st, st + (end - off)))
        for k in stored:
            if rf.file_ms(k, n, d, fc) != fms:
                out.append(({"class": "sample_in_wrong_file"}, "%s holds index %d (belongs to ms %d)"
                            % (rel, k, rf.file_ms(k, n, d, fc))))
                break
            if rf.subdir_name(rf.subdir_sec(k, n, d, sc)) != sd:
                out.append(({"class": "sample_in_wrong_subdir"}, "%s holds index %d" % (rel, k)))
                break
            if k in seen:
                out.append(({"class": "index_in_two_files"}, "%d in %s and %s" % (k, seen[k], rel)))
                break
            seen[k] = rel
        if nrows > hi - lo:
            out.append(({"class": "file_over_capacity"}, "%s rows %d window %d" % (rel, nrows, hi - lo)))
        if cfg.unchunked():
            want = list(range(lo, hi))
        else:
            want = exp_files[rel]
        if stored != want:
            out.append(({"class": "file_contents_mismatch"}, "%s stores %s model %s" % (rel, stored[:12], want[:12])))
    return out


def oracle_counters(run):
    """C19: after every accepted/rejected call the getters match the model."""
    out = []
    cfg = run.cfg
    for i, rec in enumerate(run.records):
        if rec["op"][0] in ("close", "open"):
            continue
        if rec.get("blocked") is not None:
            break  # state after a refused finalized-period entry is not claimed
        g = rec["getters"]
        if rec["status"] == "exc" or rec.get("expect_reject"):
            if rec["status"] == "exc" and g != rec["getters_before"]:
                out.append(({"class": "getters_changed_by_rejected_call"},
                            "op %d %r: %r -> %r" % (i, rec["op"], rec["getters_before"], g)))
            continue
        cur, tot, gap, last_abs = rec["model"]
        if rec.get("ret") != cur:
            out.append(({"class": "return_value"}, "op %d %r returned %r model %r" % (i, rec["op"], rec.get("ret"), cur)))
        if g[0] != cur or g[1] != tot or g[2] != gap or g[0] != g[1] + g[2]:
            out.append(({"class": "counters"}, "op %d %r getters %r model next=%d written=%d gap=%d"
                        % (i, rec["op"], g[:3], cur, tot, gap)))
        if last_abs is not None:
            rel = rf.file_relpath(last_abs, cfg)
            want_file = os.path.normpath(os.path.join(run.chdir, rel))
            want_dir = os.path.normpath(os.path.dirname(want_file))
            gf = os.path.normpath(g[3]) if g[3] else g[3]
            gd = os.path.normpath(g[4]) if g[4] else g[4]
            if gf != want_file or gd != want_dir:
                out.append(({"class": "last_file_dir"}, "op %d %r last file %r dir %r model %r"
                            % (i, rec["op"], g[3], g[4], want_file)))
    return out
