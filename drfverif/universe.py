"""Finite universes of writer configurations and operation sequences (DESIGN §2).

Everything here is enumerated completely; VERIF_SEED only rotates the visiting
order and selects the sample-value pattern, never the explored set.
"""

import itertools

from . import rf

# (n, d, file ms, subdir s): files hold few and unequal numbers of samples
LAYOUT_RATES = [
    (10, 3, 1000, 2),    # 3-4 samples per file
    (1, 1, 1000, 2),     # exactly 1
    (2, 3, 2000, 4),     # 1-2
    (200, 3, 400, 2),    # the suite's: 26-27
    (7, 2, 1000, 3),     # 3-4, three files per subdirectory
    (1000, 1, 3, 3),     # 3 per file, 1000 files per subdirectory
]

MODES = {
    "gapped": dict(cont=False, comp=0, cks=False),
    "cont": dict(cont=True, comp=0, cks=False),
    "cont+cks": dict(cont=True, comp=0, cks=True),
    "cont+gz1": dict(cont=True, comp=1, cks=False),
    "gapped+gz9+cks": dict(cont=False, comp=9, cks=True),
}

EPOCHS = [(1980, 1, 1, 0, 0, 0), (2014, 3, 9, 2, 59, 58), (2099, 12, 31, 23, 59, 50)]

L_FULL = (1, 2, 3, 5, 9)
G_FULL = (0, 1, 2, 4, 9)
L_RED = (1, 3, 9)
G_RED = (0, 2, 9)


def start_positions(n, d, fc, sc, epochs=EPOCHS):
    """absolute start indices: {first, second, last, last-1 sample of a file} x {file first / last
    in its subdirectory} x epochs"""
    import calendar

    out = []
    for ep in epochs:
        t = calendar.timegm(ep)
        t0 = t // sc * sc
        for which, ms in (("first_file", t0 * 1000), ("last_file", (t0 + sc) * 1000 - fc)):
            lo = rf.first_sample_of_ms(ms, n, d)
            hi = rf.first_sample_of_ms(ms + fc, n, d)
            if hi <= lo:
                continue
            seen = set()
            for pos, k in (("first", lo), ("second", lo + 1), ("last", hi - 1), ("last-1", hi - 2)):
                if k < lo or k in seen or k < 1:
                    continue
                seen.add(k)
                out.append((k, "%04d %s %s" % (ep[0], which, pos)))
    return out


def write_seqs(depth, Ls, Gs, first_gaps=None):
    """all sequences of rf_write(L, gap G) up to `depth`, as ops with relative indices"""
    out = []

    def rec(prefix, cursor, dleft):
        if prefix:
            out.append(list(prefix))
        if dleft == 0:
            return
        for L in Ls:
            for G in (Gs if prefix or first_gaps is None else first_gaps):
                op = ("w", cursor + G, L)
                rec(prefix + [op], cursor + G + L, dleft - 1)

    rec([], 0, depth)
    return out


def block_layouts(nblocks, lens=(1, 2, 3, 5), gaps=(1, 2, 4, 9), first=(0, 2)):
    """rf_write_blocks calls: every layout of `nblocks` blocks with the given lengths/gaps"""
    out = []
    for g0 in first:
        for ls in itertools.product(lens, repeat=nblocks):
            for gs in itertools.product(gaps, repeat=nblocks - 1):
                g, b = [g0], [0]
                for i in range(1, nblocks):
                    b.append(b[-1] + ls[i - 1])
                    g.append(g[-1] + ls[i - 1] + gs[i - 1])
                out.append(("wb", g, b, sum(ls)))
    return out


def shift_op(op, cursor):
    """re-base an op generated at cursor 0 to `cursor`"""
    if op[0] == "w":
        return ("w", op[1] + cursor, op[2])
    if op[0] == "wb":
        return ("wb", [x + cursor for x in op[1]], list(op[2]), op[3])
    return op


def op_end(op):
    if op[0] == "w":
        return op[1] + op[2]
    if op[0] == "wb":
        return op[1][-1] + (op[3] - op[2][-1])
    raise ValueError(op)


def mixed_seqs(depth, w_ops, b_ops):
    """sequences mixing rf_write and rf_write_blocks ops (generated at cursor 0, re-based)"""
    out = []
    alphabet = list(w_ops) + list(b_ops)

    def rec(prefix, cursor, dleft):
        if prefix:
            out.append(list(prefix))
        if dleft == 0:
            return
        for op in alphabet:
            o = shift_op(op, cursor)
            rec(prefix + [o], op_end(o), dleft - 1)

    rec([], 0, depth)
    return out


# realistic-magnitude rates for the floating point hazard (U-fp)
FP_RATES = [
    (10**6, 3), (10**8, 7), (125 * 10**6, 3), (200, 3), (44100, 1), (3, 7), (2**32 - 1, 1),
    (10**9 + 7, 10**9 - 63),
]
FP_CADENCES_MS = [1, 10, 400, 1000]


def fp_cases(window, epochs=((2017, 7, 14, 2, 40, 0), (2100, 1, 1, 0, 0, 0))):
    """(n, d, fc, sc, j0, window): for each rate x cadence keeping >=1 sample per file, a window
    of consecutive file numbers starting at the epoch"""
    import calendar

    out = []
    for (n, d) in FP_RATES:
        for fc in FP_CADENCES_MS:
            if n * fc < d * 1000:  # fewer than one sample per file
                continue
            sc = 3600 if 3600 * 1000 % fc == 0 else 1
            for ep in epochs:
                t = calendar.timegm(ep)
                j0 = t * 1000 // fc
                out.append((n, d, fc, sc, j0, window))
    return out


TYPE_KINDS = [("i", 1), ("i", 2), ("i", 4), ("i", 8), ("u", 1), ("u", 2), ("u", 4), ("u", 8), ("f", 4), ("f", 8)]


def type_cfgs(nsubs=(1, 2, 3), modes=None):
    out = []
    for kind, size in TYPE_KINDS:
        for order in ("<", ">"):
            for cplx in (False, True):
                for nsub in nsubs:
                    for mname in (modes or MODES):
                        out.append((dict(kind=kind, size=size, order=order, cplx=cplx, nsub=nsub, **MODES[mname]), mname))
    return out


# five fixed gap layouts (n=10,d=3,fc=1000: 3-4 samples per file); indices relative to start,
# which is the first sample of a file
GAP_LAYOUTS = {
    "nogap": [("w", 0, 11)],
    "gap_inside_file": [("w", 0, 1), ("w", 2, 9)],
    "gap_head_of_first_file": [("w", 1, 10)],
    "gap_tail_of_last_file": [("w", 0, 8)],
    "gap_spanning_files": [("w", 0, 2), ("w", 12, 3)],
    "blocks": [("wb", [0, 5, 13], [0, 2, 6], 9)],
}
