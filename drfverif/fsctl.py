"""Controller side of the file-system-operation shim."""

import json
import os
import subprocess
import sys

from . import core, stage

KINDS = {"open": 0, "create": 1, "write": 2, "trunc": 3, "close": 4, "rename": 5, "mkdir": 6, "unlink": 7}
ALL_KINDS_MASK = 0xFF
FIXED_TIME = 1600000000


def plan(kill_at=-1, torn=0, fault_at=-1, fault_at2=-1, errno=0, persist=0, pause_before=0, pause_after=0):
    return dict(kill_at=kill_at, torn=torn, fault_at=fault_at, fault_at2=fault_at2, errno=errno, persist=persist,
                pause_before=pause_before, pause_after=pause_after, fixed_time=FIXED_TIME)


class Host:
    """one worker process under LD_PRELOAD; run() executes one scenario in a forked child"""

    def __init__(self):
        st = stage.activate()
        self.log_r, log_w = os.pipe()
        ack_r, self.ack_w = os.pipe()
        env = dict(os.environ, LD_PRELOAD=os.path.join(st, "fsshim.so"), HDF5_USE_FILE_LOCKING="FALSE", PYTHONHASHSEED="0")
        self.proc = subprocess.Popen(
            [sys.executable, "-m", "drfverif.shimhost", str(log_w), str(ack_r), os.path.join(st, "fsshim.so"), st, core.VERIF],
            stdin=subprocess.PIPE, stdout=subprocess.DEVNULL, stderr=subprocess.DEVNULL, pass_fds=(log_w, ack_r), env=env,
            cwd=core.VERIF, text=True)
        os.close(log_w)
        os.close(ack_r)
        self.logf = os.fdopen(self.log_r, "r")
        line = self.logf.readline()
        if line.strip() != "READY":
            raise core.HarnessError("shim host did not start: %r" % line)

    def run(self, top, root, cfg, ops, seed, pl, on_pause=None):
        """returns dict(ops=[...], calls=[...], status=int, killed=bool)"""
        cmd = {"top": top, "root": root, "cfg": dict(cfg), "ops": [list(o) for o in ops], "seed": seed, "plan": pl}
        self.proc.stdin.write(json.dumps(cmd) + "\n")
        self.proc.stdin.flush()
        oplist = []
        calls = []
        res = None
        killed_at = None
        while True:
            line = self.logf.readline()
            if not line:
                raise core.HarnessError("shim host died")
            tag = line[0]
            if line.startswith("END "):
                status = int(line.split()[1])
                break
            if tag in "OP":
                _, i, kind, length, paths = line.rstrip("\n").split(" ", 4)
                p = paths.split("|")
                rec = {"i": int(i), "kind": kind, "len": int(length), "path": p[0], "path2": p[1] if len(p) > 1 else None,
                       "ret": None, "errno": None}
                oplist.append(rec)
                if tag == "P":
                    if on_pause is not None:
                        on_pause("before", rec, oplist, calls)
                    os.write(self.ack_w, b"x")
            elif tag == "T":
                _, i, ret, err = line.split()
                for rec in reversed(oplist):
                    if rec["i"] == int(i):
                        rec["ret"], rec["errno"] = int(ret), int(err)
                        break
            elif tag == "Q":
                _, i, kind = line.split()
                if on_pause is not None:
                    on_pause("after", oplist[-1] if oplist else None, oplist, calls)
                os.write(self.ack_w, b"x")
            elif tag == "K":
                killed_at = int(line.split()[1])
            elif line.startswith("CALL "):
                calls.append(json.loads(line[5:]))
            elif line.startswith("RES "):
                res = json.loads(line[4:])
        return {"ops": oplist, "calls": calls, "res": res, "status": status, "killed_at": killed_at}

    def close(self):
        try:
            self.proc.stdin.write(json.dumps({"quit": 1}) + "\n")
            self.proc.stdin.flush()
            self.proc.stdin.close()
            self.proc.wait(timeout=5)
        except Exception:  # noqa: BLE001
            self.proc.kill()
        try:
            self.logf.close()
            os.close(self.ack_w)
        except OSError:
            pass


_host = None


def host():
    """per-process singleton"""
    global _host
    if _host is None or _host.proc.poll() is not None:
        _host = Host()
    return _host
