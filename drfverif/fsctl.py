"""Controller side of the file-system-operation shim."""

import json
import os
import subprocess
import sys

from . import core, stage

KINDS = {"open": 0, "create": 1, "write": 2, "trunc": 3, "close": 4, "rename": 5, "mkdir": 6, "unlink": 7}
ALL_KINDS_MASK = 0xFF
FIXED_TIME = 1600000000


def plan(kill_at=-1, torn=0, fault_at=-1, fault_at2=-1, errno=0, persist=0, pause_before=0, pause_after=0):
    return dict(kill_at=kill_at, torn=torn, fault_at=fault_at, fault_at2=fault_at2, errno=errno, persist=persist,
                pause_before=pause_before, pause_after=pause_after, fixed_time=FIXED_TIME)


class Host:
    """one worker process under LD_PRELOAD; run() executes one scenario in a forked child"""

    def __init__(self):
        st = stage.activate()
        self.log_r, log_w = os.pipe()
        ack_r, self.ack_w = os.pipe()
        env = dict(os.environ, LD_PRELOAD=os.path.join(st, "fsshim.so"), HDF5_USE_FILE_LOCKING="FALSE", PYTHONHASHSEED="0")
        self.proc = subprocess.Popen(
            [sys.executable, "-m", "drfverif.shimhost", str(log_w), str(ack_r), os.path.join(st, "fsshim.so"), st, core.VERIF],
            stdin=subprocess.PIPE, stdout=subprocess.DEVNULL, stderr=subprocess.DEVNULL, pass_fds=(log_w, ack_r), env=env,
            cwd=core.VERIF, text=True)
        os.close(log_w)
        os.close(ack_r)
        self.logf = os.fdopen(self.log_r, "r")
        line = self.logf.readline()
        if line.strip() != "READY":
            raise core.HarnessError("shim host did not start: %r" % line)

    def start(self, top, root, cfg, ops, seed, pl):
        """begin a run; returns a Session the controller steps through"""
        prev = getattr(self, "session", None)
        if prev is not None and not prev.done:
            # a previous run was abandoned half-way (e.g. the code under test raised in the controller):
            # let its writer child run to completion before the next command, or both sides wait forever
            prev.finish()
        cmd = {"top": top, "root": root, "cfg": dict(cfg), "ops": [list(o) for o in ops], "seed": seed, "plan": pl}
        self.proc.stdin.write(json.dumps(cmd) + "\n")
        self.proc.stdin.flush()
        self.session = Session(self)
        return self.session

    def run(self, top, root, cfg, ops, seed, pl, on_pause=None):
        """returns dict(ops=[...], calls=[...], status=int, killed_at=...)"""
        sess = self.start(top, root, cfg, ops, seed, pl)
        while True:
            ev = sess.next_pause()
            if ev is None:
                break
            when, rec = ev
            if on_pause is not None:
                on_pause(when, rec, sess.ops, sess.calls)
        return sess.result()

    def close(self):
        try:
            self.proc.stdin.write(json.dumps({"quit": 1}) + "\n")
            self.proc.stdin.flush()
            self.proc.stdin.close()
            self.proc.wait(timeout=5)
        except Exception:  # noqa: BLE001
            self.proc.kill()
        try:
            self.logf.close()
            os.close(self.ack_w)
        except OSError:
            pass


class Session:
    """one run of the writer child; the controller decides when each paused operation proceeds"""

    def __init__(self, host):
        self.h = host
        self.ops = []
        self.calls = []
        self.res = None
        self.status = None
        self.killed_at = None
        self.pending_ack = False
        self.done = False

    def next_pause(self):
        """let the writer run to its next pause; returns (when, op record) or None at the end"""
        if self.done:
            return None
        if self.pending_ack:
            os.write(self.h.ack_w, b"x")
            self.pending_ack = False
        while True:
            line = self.h.logf.readline()
            if not line:
                raise core.HarnessError("shim host died")
            tag = line[0]
            if line.startswith("END "):
                self.status = int(line.split()[1])
                self.done = True
                return None
            if tag in "OP":
                _, i, kind, length, paths = line.rstrip("\n").split(" ", 4)
                p = paths.split("|")
                rec = {"i": int(i), "kind": kind, "len": int(length), "path": p[0], "path2": p[1] if len(p) > 1 else None,
                       "ret": None, "errno": None}
                self.ops.append(rec)
                if tag == "P":
                    self.pending_ack = True
                    return ("before", rec)
            elif tag == "T":
                _, i, ret, err = line.split()
                for rec in reversed(self.ops):
                    if rec["i"] == int(i):
                        rec["ret"], rec["errno"] = int(ret), int(err)
                        break
            elif tag == "Q":
                self.pending_ack = True
                return ("after", self.ops[-1] if self.ops else None)
            elif tag == "K":
                self.killed_at = int(line.split()[1])
            elif line.startswith("CALL "):
                self.calls.append(json.loads(line[5:]))
            elif line.startswith("RES "):
                self.res = json.loads(line[4:])

    def finish(self):
        while self.next_pause() is not None:
            pass
        return self.result()

    def result(self):
        return {"ops": self.ops, "calls": self.calls, "res": self.res, "status": self.status, "killed_at": self.killed_at}


_host = None


def host():
    """per-process singleton"""
    global _host
    if _host is None or _host.proc.poll() is not None:
        _host = Host()
    return _host
