"""Shared plumbing: evidence, violations, known findings, replay files, worker pool."""

import atexit
import collections
import hashlib
import json
import multiprocessing
import os
import shutil
import signal
import sys
import time
import traceback

VERIF = os.path.dirname(os.path.dirname(os.path.abspath(__file__)))
# (overridable so that runs against deliberately broken trees do not overwrite the real evidence)
EVIDENCE_DIR = os.environ.get("DRFVERIF_EVIDENCE_DIR", os.path.join(VERIF, "evidence"))
REPLAY_DIR = os.environ.get("DRFVERIF_REPLAY_DIR", os.path.join(VERIF, "replays"))
FINDINGS_FILE = os.path.join(VERIF, "known_findings.json")
SHM = "/dev/shm"
NPROC = int(os.environ.get("DRFVERIF_NPROC", "16"))


def seed():
    try:
        return int(os.environ.get("VERIF_SEED", "0"))
    except ValueError:
        return 0


# ---------------------------------------------------------------- scratch dirs
_scratch_root = None


def scratch_root():
    """Per-process scratch directory on tmpfs; workers nest under the parent's root so
    that the parent's atexit removes everything."""
    global _scratch_root
    tag = "-%d" % os.getpid()
    if _scratch_root is None or not _scratch_root.endswith(tag):
        parent = os.environ.get("DRFVERIF_SCRATCH_ROOT")
        if parent and os.path.isdir(parent) and not parent.endswith(tag):
            _scratch_root = os.path.join(parent, "w" + tag)
            os.makedirs(_scratch_root, exist_ok=True)
        else:
            base = SHM if os.path.isdir(SHM) and os.access(SHM, os.W_OK) else "/var/tmp"
            _scratch_root = os.path.join(base, "drfverif" + tag)
            os.makedirs(_scratch_root, exist_ok=True)
            os.environ["DRFVERIF_SCRATCH_ROOT"] = _scratch_root
            atexit.register(shutil.rmtree, _scratch_root, True)
    return _scratch_root


_scratch_ctr = 0


_scratch_base = {}


def new_scratch(tag="t", long_path=False, via_symlink=False):
    """fresh scratch directory; with long_path the returned directory lies ~300 characters deep (every
    component far below NAME_MAX), so that paths of data files exceed 264 characters; with via_symlink the
    returned path reaches its directory through a symbolic link followed by '..' (<base>/site/current/.. with
    current -> <base>/disk/run42, i.e. really <base>/disk), a form that must not be collapsed lexically"""
    global _scratch_ctr
    _scratch_ctr += 1
    p = os.path.join(scratch_root(), "%s%d" % (tag, _scratch_ctr))
    shutil.rmtree(p, ignore_errors=True)
    if via_symlink:
        base = p
        os.makedirs(os.path.join(base, "disk", "run42"))
        os.makedirs(os.path.join(base, "site"))
        os.symlink(os.path.join(base, "disk", "run42"), os.path.join(base, "site", "current"))
        p = os.path.join(base, "site", "current", "..")
        _scratch_base[p] = base
        return p
    if os.environ.get("DRFVERIF_PLAIN_PATHS") != "1":
        # data sets live where users put them: a component with blanks and with characters that are special
        # in glob patterns and regular expressions
        p = os.path.join(p, "tmp.run[3] (a+b)")  # (also begins like the library's own temporary names)
    if long_path:
        p = os.path.join(p, "deep_" + "a" * 90, "archive_" + "b" * 90, "site_" + "c" * 60)
    os.makedirs(p)
    return p


def rm(path):
    base = _scratch_base.pop(path, None)
    if base is not None:
        shutil.rmtree(base, ignore_errors=True)
        return
    shutil.rmtree(path, ignore_errors=True)
    # a long_path scratch: remove its (then empty) ancestors below the scratch root as well
    root = scratch_root()
    parent = os.path.dirname(path)
    while parent.startswith(root + os.sep) and parent != root:
        try:
            os.rmdir(parent)
        except OSError:
            break
        parent = os.path.dirname(parent)


# ---------------------------------------------------------------- worker pool
def _init_worker():
    signal.signal(signal.SIGINT, signal.SIG_IGN)
    global _scratch_root
    _scratch_root = None


def _wrap(args):
    func, item = args
    try:
        return ("ok", func(item))
    except BaseException as e:
        # an exception escaping from the *library under test* at a place where the harness did not
        # expect one is a finding about the library, not a harness failure
        tb = traceback.extract_tb(e.__traceback__)
        lib_frames = [f for f in tb if os.sep + ".build" + os.sep in f.filename and os.sep + "digital_rf" + os.sep in f.filename]
        if lib_frames and not isinstance(e, (KeyboardInterrupt, SystemExit, MemoryError, HarnessError)):
            part = new_part()
            part["evaluations"] = 1
            last = lib_frames[-1]
            part["violations"].append(Violation(
                {"class": "library_raised_unexpectedly", "exc": type(e).__name__, "where": "%s:%s" % (os.path.basename(last.filename), last.name)},
                {"work_item": repr(item)[:3000]},
                "unexpected %s from %s:%d (%s): %s" % (type(e).__name__, os.path.basename(last.filename), last.lineno, last.name, str(e)[:300])))
            return ("ok", part)
        if isinstance(e, Exception) and not isinstance(e, (MemoryError, HarnessError)):
            # The step ran into a state its own code has no answer for (an index error on a result of unexpected
            # shape, a file h5py cannot open, the reference model refusing an overwrite ...).  On the unchanged
            # tree no item does this; when one does, the library behaved in a way the harness' model of it rules
            # out, which is what the check is there to report.  Deliberate HarnessError stays fatal (exit 2).
            part = new_part()
            part["evaluations"] = 1
            last = tb[-1] if tb else None
            part["violations"].append(Violation(
                {"class": "unexpected_library_behaviour_broke_check_step", "exc": type(e).__name__,
                 "where": "%s:%s" % (os.path.basename(last.filename), last.name) if last else "?"},
                {"work_item": repr(item)[:3000]},
                "%s at %s:%s (%s): %s" % (type(e).__name__, os.path.basename(last.filename) if last else "?", last.lineno if last else "?",
                                          last.name if last else "?", str(e)[:300])))
            return ("ok", part)
        return ("err", traceback.format_exc(), repr(item)[:2000])


def _wrap_isolated(args):
    """run one work item in a forked child of the pool worker: if the code under test kills the
    process (abort(), assertion failure, segfault in the C library) only that item is lost and it
    is reported as a violation; the pool itself survives"""
    import pickle

    func, item = args
    r, w = os.pipe()
    pid = os.fork()
    if pid == 0:
        code = 0
        try:
            os.close(r)
            res = _wrap(args)
            with os.fdopen(w, "wb") as f:
                pickle.dump(res, f, protocol=pickle.HIGHEST_PROTOCOL)
        except BaseException:
            code = 71
        finally:
            os._exit(code)
    os.close(w)
    chunks = []
    with os.fdopen(r, "rb") as f:
        while True:
            c = f.read(1 << 20)
            if not c:
                break
            chunks.append(c)
    _, status = os.waitpid(pid, 0)
    data = b"".join(chunks)
    if os.WIFSIGNALED(status) or not data:
        how = "signal %d" % os.WTERMSIG(status) if os.WIFSIGNALED(status) else "exit status %d" % os.WEXITSTATUS(status)
        return ("ok", _crash_part(item, how))
    return pickle.loads(data)


class HarnessError(Exception):
    pass


def _crash_part(item, how):
    """result for a work item whose worker process was killed by the code under test (abort(),
    assertion failure or segfault inside the C library): reported as a violation, never a hang"""
    part = new_part()
    part["evaluations"] = 1
    part["violations"].append(Violation({"class": "process_crashed"}, {"crashed_work_item": repr(item)[:3000]},
                                        "the process executing this work item died (%s): the library aborted or crashed" % how))
    return part


def pmap(func, items, chunksize=None, nproc=None, isolate=True):
    """Ordered parallel map over a fork pool; harness exceptions are fatal (exit 2).  A worker that is
    killed (abort()/segfault in the C library under test) does not hang the run: the offending item is
    isolated by re-running the unfinished items one process each and reported as a violation."""
    from concurrent.futures import ProcessPoolExecutor
    from concurrent.futures.process import BrokenProcessPool

    items = list(items)
    if not items:
        return []
    nproc = nproc or NPROC
    scratch_root()
    if nproc <= 1 or len(items) == 1:
        out = []
        for it in items:
            r = _wrap((func, it))
            if r[0] == "err":
                raise HarnessError("work item failed on %s:\n%s" % (r[2], r[1]))
            out.append(r[1])
        return out
    ctx = multiprocessing.get_context("fork")
    results = [None] * len(items)
    pending = set(range(len(items)))
    ex = ProcessPoolExecutor(nproc, mp_context=ctx, initializer=_init_worker)
    try:
        runner = _wrap_isolated if isolate else _wrap
        futs = {i: ex.submit(runner, (func, items[i])) for i in range(len(items))}
        broken = False
        for i in range(len(items)):
            try:
                r = futs[i].result()
            except BrokenProcessPool:
                broken = True
                continue
            if r[0] == "err":
                raise HarnessError("worker failed on %s:\n%s" % (r[2], r[1]))
            results[i] = r[1]
            pending.discard(i)
        clean = not broken
    except BaseException:
        clean = False
        raise
    finally:
        # normal completion: wait for the pool to wind down (an abrupt shutdown races with the executor's
        # own management thread); only abandon it when something went wrong
        ex.shutdown(wait=clean, cancel_futures=True)
    if pending:
        # isolate: every unfinished item in its own process
        for i in sorted(pending):
            ex1 = ProcessPoolExecutor(1, mp_context=ctx, initializer=_init_worker)
            try:
                r = ex1.submit(_wrap, (func, items[i])).result()
                if r[0] == "err":
                    raise HarnessError("worker failed on %s:\n%s" % (r[2], r[1]))
                results[i] = r[1]
            except BrokenProcessPool:
                results[i] = _crash_part(items[i], "worker process terminated abnormally")
            finally:
                ex1.shutdown(wait=False, cancel_futures=True)
    return results


def cleanup_worker_scratch():
    base = SHM if os.path.isdir(SHM) else "/var/tmp"
    for name in os.listdir(base):
        if name.startswith("drfverif-"):
            try:
                pid = int(name.split("-")[1])
            except ValueError:
                continue
            if pid == os.getpid():
                continue
            try:
                os.kill(pid, 0)
            except ProcessLookupError:
                shutil.rmtree(os.path.join(base, name), ignore_errors=True)
            except PermissionError:
                pass


# ---------------------------------------------------------------- findings
def load_findings():
    if not os.path.exists(FINDINGS_FILE):
        return []
    with open(FINDINGS_FILE) as f:
        return json.load(f)["findings"]


def jsonable(x):
    import numpy as np

    if isinstance(x, dict):
        return {str(k): jsonable(v) for k, v in x.items()}
    if isinstance(x, (list, tuple, set, frozenset)):
        return [jsonable(v) for v in x]
    if isinstance(x, np.generic):
        return jsonable(x.item())
    if isinstance(x, np.ndarray):
        return jsonable(x.tolist())
    if isinstance(x, bytes):
        return x.hex()
    if isinstance(x, (str, int, bool)) or x is None:
        return x
    if isinstance(x, float):
        return x if x == x and abs(x) != float("inf") else repr(x)
    return repr(x)


def canon(x):
    return hashlib.sha1(json.dumps(jsonable(x), sort_keys=True).encode()).hexdigest()[:16]


class Violation(dict):
    """key: specific classification (dict); case: replayable input; detail: what was seen."""

    def __init__(self, key, case, detail):
        super().__init__(key=jsonable(key), case=jsonable(case), detail=jsonable(detail))


class Check:
    def __init__(self, pid, tier, level, rule, assumptions=()):
        self.pid = pid
        self.tier = tier
        self.level = level
        self.rule = rule
        self.assumptions = list(assumptions)
        self.t0 = time.time()
        self.evaluations = 0
        self.transitions = 0
        self.traces = 0
        self.state_hashes = set()
        self.nontrivial = set()
        self.outcomes = collections.Counter()
        self.samples = []
        self.violations = []
        self.extra = {}
        self.exhaustive = True
        self.caps = []

    # ---- accumulation helpers
    def add_sample(self, s, limit=5):
        if len(self.samples) < limit:
            self.samples.append(jsonable(s))

    def merge(self, part):
        """Merge a worker's partial result dict."""
        self.evaluations += part.get("evaluations", 0)
        self.transitions += part.get("transitions", 0)
        self.traces += part.get("traces", 0)
        self.state_hashes.update(part.get("states", ()))
        self.nontrivial.update(part.get("nontrivial", ()))
        self.outcomes.update(part.get("outcomes", {}))
        for s in part.get("samples", ()):
            self.add_sample(s)
        self.violations.extend(part.get("violations", ()))
        for k, v in part.get("extra", {}).items():
            if isinstance(v, (int, float)):
                self.extra[k] = self.extra.get(k, 0) + v
            else:
                self.extra[k] = v

    def cap(self, text):
        self.exhaustive = False
        self.caps.append(text)

    # ---- end of run
    def finish(self):
        findings = [f for f in load_findings() if f["property"] == self.pid]
        known_hits = collections.OrderedDict()
        fresh = collections.OrderedDict()
        for v in self.violations:
            hit = None
            for f in findings:
                if f.get("status") == "open" and all(v["key"].get(k) == val for k, val in f["match"].items()):
                    hit = f
                    break
            if hit is not None:
                known_hits.setdefault(hit["id"], (hit, []))[1].append(v)
            else:
                sig = canon(v["key"])
                fresh.setdefault(sig, []).append(v)
        os.makedirs(EVIDENCE_DIR, exist_ok=True)
        lines = []
        for fid, (f, vs) in known_hits.items():
            lines.append(
                "KNOWN-FINDING: property=%s %s: %s (%d occurrences this run, e.g. %s)"
                % (self.pid, fid, f["text"], len(vs), json.dumps(vs[0]["case"])[:300])
            )
        rc = 0
        if fresh:
            os.makedirs(REPLAY_DIR, exist_ok=True)
            rc = 1
            for sig, vs in fresh.items():
                vs.sort(key=lambda v: len(json.dumps(v["case"])))
                path = os.path.join(REPLAY_DIR, "%s-%s.json" % (self.pid, sig))
                with open(path, "w") as fo:
                    json.dump({"property": self.pid, "key": vs[0]["key"], "case": vs[0]["case"],
                               "detail": vs[0]["detail"], "occurrences": len(vs)}, fo, indent=1)
                lines.append("VIOLATION property=%s replay=%s" % (self.pid, path))
                lines.append("  key=%s detail=%s" % (json.dumps(vs[0]["key"]), json.dumps(vs[0]["detail"])[:600]))
        cov = {
            "evaluations": int(self.evaluations),
            "distinct_nontrivial": len(self.nontrivial),
            "rule": self.rule,
            "samples": self.samples or [{"note": "no sample recorded"}],
            "states": len(self.state_hashes),
            "transitions": int(self.transitions),
            "traces_validated_against_impl": int(self.traces),
            "exhaustive": bool(self.exhaustive),
            "distinct_outcomes": len(self.outcomes),
            "outcome_histogram": dict(collections.Counter(self.outcomes).most_common(12)),
            "known_findings_hit": {fid: len(vs) for fid, (f, vs) in known_hits.items()},
        }
        if self.caps:
            cov["caps_hit"] = self.caps
        cov.update(jsonable(self.extra))
        ev = {
            "property_id": self.pid,
            "tier": self.tier,
            "seed": seed(),
            "level": self.level,
            "coverage": cov,
            "assumptions": self.assumptions,
            "wall_s": round(time.time() - self.t0, 2),
            "violations": len(fresh),
        }
        with open(os.path.join(EVIDENCE_DIR, self.pid + ".json"), "w") as fo:
            json.dump(ev, fo, indent=1)
        for ln in lines:
            print(ln)
        print(
            "%s %s: evaluations=%d states=%d transitions=%d traces=%d distinct_nontrivial=%d outcomes=%d "
            "known=%d new_violations=%d exhaustive=%s wall=%.1fs"
            % (self.pid, self.tier, self.evaluations, len(self.state_hashes), self.transitions, self.traces,
               len(self.nontrivial), len(self.outcomes), sum(len(v[1]) for v in known_hits.values()), len(fresh),
               self.exhaustive, time.time() - self.t0)
        )
        sys.stdout.flush()
        return rc


def new_part():
    return {"evaluations": 0, "transitions": 0, "traces": 0, "states": set(), "nontrivial": set(),
            "outcomes": collections.Counter(), "samples": [], "violations": [], "extra": {}}


def merge_parts(parts):
    out = new_part()
    for p in parts:
        out["evaluations"] += p["evaluations"]
        out["transitions"] += p["transitions"]
        out["traces"] += p["traces"]
        out["states"] |= p["states"]
        out["nontrivial"] |= p["nontrivial"]
        out["outcomes"].update(p["outcomes"])
        if len(out["samples"]) < 5:
            out["samples"].extend(p["samples"][: 5 - len(out["samples"])])
        out["violations"].extend(p["violations"])
        for k, v in p["extra"].items():
            if isinstance(v, (int, float)):
                out["extra"][k] = out["extra"].get(k, 0) + v
            else:
                out["extra"][k] = v
    return out
