"""./check <ID> quick|thorough   |   ./check replay <file>   |   ./check all quick"""

import importlib
import json
import os
import sys
import traceback

from . import core, stage


def run_check(pid, tier):
    mod = importlib.import_module("drfverif.checks." + pid.lower())
    return mod.main(tier)


def main(argv):
    if len(argv) < 2:
        print(__doc__)
        return 2
    os.environ.setdefault("PYTHONHASHSEED", "0")
    # local time zone of the recording/reading processes: deliberately not UTC (POSIX TZ string, no tzdata
    # needed); every name and time in the format is defined in UTC and must not depend on it
    # (US Eastern rules: on 2014-03-09 local times 02:00-03:00 do not exist; the universes put UTC-named
    #  directories such as 2014-03-09T02-59-50 and ...T03-00-00 next to each other on purpose)
    os.environ["TZ"] = os.environ.get("DRFVERIF_TZ", "EST5EDT,M3.2.0,M11.1.0")
    import time as _time

    _time.tzset()
    if not os.environ.get("DRFVERIF_DEBUG"):
        # the C library and HDF5 report expected rejections on the C-level stderr: silence fd 2,
        # keep Python's sys.stderr on a duplicate of the original descriptor
        sys.stderr.flush()
        saved = os.dup(2)
        devnull = os.open(os.devnull, os.O_WRONLY)
        os.dup2(devnull, 2)
        os.close(devnull)
        sys.stderr = os.fdopen(saved, "w", buffering=1)
    try:
        stage.activate()
    except stage.BuildError as e:
        print("HARNESS-ERROR: staging /repo failed (not a property violation):\n%s" % e, file=sys.stderr)
        return 2
    try:
        if argv[0] == "replay":
            with open(argv[1]) as f:
                rp = json.load(f)
            mod = importlib.import_module("drfverif.checks." + rp["property"].lower())
            res = mod.replay(rp["case"])
            print(json.dumps(core.jsonable(res), indent=1)[:6000])
            return 1 if res else 0
        pid, tier = argv[0].upper(), argv[1]
        os.environ["VERIF_TIER"] = tier
        if pid == "ALL":
            rc = 0
            for i in range(1, 21):
                rc |= run_check("C%02d" % i, tier)
            return rc
        return run_check(pid, tier)
    except core.HarnessError as e:
        print("HARNESS-ERROR: %s" % e, file=sys.stderr)
        return 2
    except Exception:
        traceback.print_exc()
        print("HARNESS-ERROR: unexpected exception in the checker itself", file=sys.stderr)
        return 2


if __name__ == "__main__":
    sys.exit(main(sys.argv[1:]))
