"""Bounded grammar of Digital RF / Digital Metadata directory trees (placeholder files) and the
set-theoretic listing oracle shared by C14, C15 and C18."""

import datetime
import itertools
import os
import re

T0 = 1394333990  # 2014-03-09T02:59:50Z, multiple of SC: subdirectories 02-59-50, 03-00-00, 03-00-10
SC = 10          # subdirectory cadence (s) of every generated channel
EPOCH = datetime.datetime(1970, 1, 1, tzinfo=datetime.timezone.utc)

RE_SUBDIR = re.compile(r"^[0-9]{4}-[0-9]{2}-[0-9]{2}T[0-9]{2}-[0-9]{2}-[0-9]{2}$")
RE_DRF = re.compile(r"^(?!tmp\.)(.+?)@([0-9]+)\.([0-9]{3})\.h5$")
RE_DMD = re.compile(r"^(?!tmp\.)(.+?)@([0-9]+)\.h5$")


def subdir_name(sec):
    return datetime.datetime.fromtimestamp(sec, tz=datetime.timezone.utc).strftime("%Y-%m-%dT%H-%M-%S")


# per-subdirectory content patterns: list of (kind, offset seconds) ; kinds:
#  v = valid file of the channel's kind, o = valid name of the other kind, t = tmp.-prefixed,
#  x = wrong extension, p = second prefix with the same timestamp as a valid file
PATTERNS = {
    "E": [],
    "1": [("v", 0)],
    "2": [("v", 0), ("v", 4)],
    "3": [("v", 0), ("v", 4), ("v", 8)],
    "M": [("v", 4), ("t", 8), ("x", 2), ("o", 6)],
    "P": [("v", 4), ("p", 4), ("v", 8)],
    "J": [("t", 0), ("x", 4)],
    "L": [("v", 8)],
}

KINDS = ("drf", "dmd", "legacy", "plain")


def data_name(kind, prefix, sec, ms=0):
    if kind == "drf":
        return "%s@%d.%03d.h5" % (prefix, sec, ms)
    return "%s@%d.h5" % (prefix, sec)


def channel_files(kind, triple, sub_times=None):
    """relative paths (within the channel dir) for a channel of `kind` whose three subdirectories
    follow the content patterns in `triple` ('-' = subdirectory absent)"""
    out = []
    if kind == "drf":
        out.append("drf_properties.h5")
        mine, other = "drf", "dmd"
        pfx = "rf"
    elif kind == "dmd":
        out.append("dmd_properties.h5")
        mine, other = "dmd", "drf"
        pfx = "metadata"
    elif kind == "legacy":
        out.append("metadata.h5")
        mine, other = "drf", "dmd"
        pfx = "rf"
    else:
        mine, other = "drf", "dmd"
        pfx = "rf"
    dirs = []
    for i, pat in enumerate(triple):
        if pat == "-":
            continue
        st = T0 + i * SC
        sd = subdir_name(st)
        dirs.append(sd)
        for (fk, off) in PATTERNS[pat]:
            t = st + off
            if fk == "v":
                out.append("%s/%s" % (sd, data_name(mine, pfx, t)))
            elif fk == "o":
                out.append("%s/%s" % (sd, data_name(other, "oth", t)))
            elif fk == "t":
                out.append("%s/tmp.%s" % (sd, data_name(mine, pfx, t)))
            elif fk == "x":
                out.append("%s/%s" % (sd, data_name(mine, pfx, t)[:-3] + ".txt"))
            elif fk == "p":
                out.append("%s/%s" % (sd, data_name(mine, "zz", t)))
    # noise that must always be ignored
    out.append("notes.txt")
    out.append("%s" % data_name(mine, pfx, T0 + 1))  # stray data-named file directly in the channel dir
    out.append("2014-03-09_bad/%s" % data_name(mine, pfx, T0 + 2))  # malformed subdirectory name
    out.append("%s.bak/%s" % (subdir_name(T0), data_name(mine, pfx, T0 + 3)))  # name merely starts like a subdirectory
    return out, dirs


def make_tree(top, spec):
    """spec: list of (channel relpath, kind, triple).  Creates placeholder files with distinct
    content; returns the list of all files created (relative to top)."""
    created = []
    ctr = 0
    for chrel, kind, triple in spec:
        files, dirs = channel_files(kind, triple)
        chdir = os.path.join(top, chrel)
        os.makedirs(chdir, exist_ok=True)
        for d in dirs:
            os.makedirs(os.path.join(chdir, d), exist_ok=True)
        for rel in files:
            p = os.path.join(chdir, rel)
            os.makedirs(os.path.dirname(p), exist_ok=True)
            ctr += 1
            with open(p, "w") as f:
                f.write("placeholder %d %s\n" % (ctr, rel) * (1 + ctr % 3))
            os.utime(p, (1000000 + ctr, 1000000 + ctr))
            created.append(os.path.normpath(os.path.join(chrel, rel)))
    return created


def scan(top):
    """tree description from disk: dict dir relpath -> (subdirs, files)"""
    out = {}
    for root, dirs, files in os.walk(top):
        out[os.path.relpath(root, top)] = (sorted(dirs), sorted(files))
    return out


def file_time_ms(name):
    m = RE_DRF.match(name)
    if m:
        return int(m.group(2)) * 1000 + int(m.group(3)), "drf"
    m = RE_DMD.match(name)
    if m:
        return int(m.group(2)) * 1000, "dmd"
    return None, None


def to_ms(dt):
    if dt is None:
        return None
    if dt.tzinfo is None:
        dt = dt.replace(tzinfo=datetime.timezone.utc)
    delta = dt - EPOCH
    return (delta.days * 86400 + delta.seconds) * 1000 + delta.microseconds // 1000


def from_ms(ms):
    return EPOCH + datetime.timedelta(milliseconds=ms)


def expected_listing(top, path, include_drf=True, include_dmd=True, include_drf_properties=None,
                     include_dmd_properties=None, recursive=True, starttime=None, endtime=None, skip_dirs=()):
    """Oracle: returns (required set, allowed-extra set, per-channel dict of listed data files) of
    absolute paths.  `skip_dirs`: directories to treat as vanished."""
    if include_drf_properties is None:
        include_drf_properties = include_drf
    if include_dmd_properties is None:
        include_dmd_properties = include_dmd
    s_ms, e_ms = to_ms(starttime), to_ms(endtime)
    required, allowed = set(), set()
    per_channel = {}
    path = os.path.abspath(path)

    def channel(root, subdirs, props):
        is_drf = any(p in ("drf_properties.h5", "metadata.h5") for p in props)
        is_dmd = any(p in ("dmd_properties.h5", "metadata.h5") for p in props)
        y_drf = is_drf and include_drf
        y_dmd = is_dmd and include_dmd
        if not (y_drf or y_dmd):
            return
        files = []
        for sd in subdirs:
            full = os.path.join(root, sd)
            if full in skip_dirs or not os.path.isdir(full):
                continue
            for fn in sorted(os.listdir(full)):
                if not os.path.isfile(os.path.join(full, fn)):
                    continue
                t, k = file_time_ms(fn)
                if t is None:
                    continue
                if (k == "drf" and y_drf) or (k == "dmd" and y_dmd):
                    files.append((t, os.path.join(full, fn)))
        files.sort()
        inwin = [(t, p) for t, p in files if (s_ms is None or t >= s_ms) and (e_ms is None or t <= e_ms)]
        listed = set(p for _, p in inwin)
        required.update(listed)
        per_channel[root] = (files, y_dmd)
        if y_dmd and s_ms is not None:
            before = [(t, p) for t, p in files if t < s_ms]
            if before:
                tmax = before[-1][0]
                cands = set(p for t, p in before if t == tmax)
                allowed.update(cands)
                exact = any(t == s_ms for t, _ in files)
                pure_dmd = not y_drf
                if not exact and pure_dmd:
                    per_channel[root] = (files, y_dmd, cands)

    def visit(root):
        try:
            names = sorted(os.listdir(root))
        except OSError:
            return
        dirs = [n for n in names if os.path.isdir(os.path.join(root, n))]
        files = [n for n in names if os.path.isfile(os.path.join(root, n))]
        props = [f for f in files if f in ("drf_properties.h5", "dmd_properties.h5", "metadata.h5")]
        if props:
            for p in props:
                if (p == "drf_properties.h5" and include_drf_properties) or (p == "dmd_properties.h5" and include_dmd_properties) or (
                        p == "metadata.h5" and (include_drf_properties or include_dmd_properties)):
                    required.add(os.path.join(root, p))
            channel(root, [d for d in dirs if RE_SUBDIR.match(d)], props)
        if recursive:
            for d in dirs:
                if props and RE_SUBDIR.match(d):
                    continue
                visit(os.path.join(root, d))

    # path that is itself a timestamped subdirectory of a channel
    parent, base = os.path.split(path)
    if RE_SUBDIR.match(base) and (include_drf or include_dmd):
        try:
            pprops = [f for f in os.listdir(parent) if f in ("drf_properties.h5", "dmd_properties.h5", "metadata.h5")]
        except OSError:
            pprops = []
        if pprops:
            channel(parent, [base], pprops)
    visit(path)
    return required, allowed, per_channel


def check_listing(got, required, allowed, per_channel, reverse=False):
    """-> None or (class, text)"""
    gs = set(got)
    if len(gs) != len(got):
        dup = sorted(p for p in gs if got.count(p) > 1)
        return "duplicate", "listed more than once: %s" % dup[:3]
    # required ffill extras: one of the candidates per pure-metadata channel
    need_extra = []
    for root, info in per_channel.items():
        if len(info) == 3:
            need_extra.append(info[2])
    missing = required - gs
    if missing:
        return "missing", "not listed: %s" % sorted(missing)[:3]
    extra = gs - required - allowed
    if extra:
        return "extra", "listed but not selected: %s" % sorted(extra)[:3]
    for cands in need_extra:
        if not (cands & gs):
            return "ffill_missing", "forward-fill file not listed (one of %s)" % sorted(cands)[:2]
    # order within each channel
    for root, info in per_channel.items():
        files = info[0]
        tmap = {p: t for t, p in files}
        seq = [tmap[p] for p in got if p in tmap]
        ok = all(a <= b for a, b in zip(seq, seq[1:])) if not reverse else all(a >= b for a, b in zip(seq, seq[1:]))
        if not ok:
            return "order", "channel %s not in %s file-time order: %s" % (root, "descending" if reverse else "ascending", seq[:8])
    return None
