"""ctypes access to the real private C functions through the staged helper library."""

import ctypes
import os

import numpy as np

from . import stage

_lib = None


def lib():
    global _lib
    if _lib is None:
        st = stage.activate()
        _lib = ctypes.CDLL(os.path.join(st, "libdrfhelper.so"))
        u64 = ctypes.c_uint64
        p64 = ctypes.POINTER(ctypes.c_uint64)
        _lib.drfv_floor_batch.argtypes = [u64, u64, p64, u64, p64, p64]
        _lib.drfv_ceil_batch.argtypes = [u64, u64, p64, p64, u64, p64]
        _lib.drfv_subdir_file_batch.argtypes = [u64, u64, u64, u64, u64, p64, u64, ctypes.c_char_p, ctypes.c_char_p,
                                                p64, p64, ctypes.POINTER(ctypes.c_int)]
    return _lib


def _p(a):
    return a.ctypes.data_as(ctypes.POINTER(ctypes.c_uint64))


def floor_batch(n, d, ks):
    ks = np.ascontiguousarray(ks, dtype=np.uint64)
    sec = np.zeros(len(ks), dtype=np.uint64)
    ps = np.zeros(len(ks), dtype=np.uint64)
    rc = lib().drfv_floor_batch(n, d, _p(ks), len(ks), _p(sec), _p(ps))
    return rc, sec, ps


def ceil_batch(n, d, secs, pss):
    secs = np.ascontiguousarray(secs, dtype=np.uint64)
    pss = np.ascontiguousarray(pss, dtype=np.uint64)
    out = np.zeros(len(secs), dtype=np.uint64)
    rc = lib().drfv_ceil_batch(n, d, _p(secs), _p(pss), len(secs), _p(out))
    return rc, out


def subdir_file_batch(n, d, sc, fc, start, krel):
    krel = np.ascontiguousarray(krel, dtype=np.uint64)
    cnt = len(krel)
    sd = ctypes.create_string_buffer(32 * cnt)
    bn = ctypes.create_string_buffer(48 * cnt)
    left = np.zeros(cnt, dtype=np.uint64)
    mx = np.zeros(cnt, dtype=np.uint64)
    rcs = np.zeros(cnt, dtype=np.int32)
    lib().drfv_subdir_file_batch(n, d, sc, fc, start, _p(krel), cnt, sd, bn, _p(left), _p(mx),
                                 rcs.ctypes.data_as(ctypes.POINTER(ctypes.c_int)))
    sdr, bnr = sd.raw, bn.raw
    subdirs = [sdr[32 * i:32 * i + 32].split(b"\0", 1)[0].decode() for i in range(cnt)]
    bases = [bnr[48 * i:48 * i + 48].split(b"\0", 1)[0].decode() for i in range(cnt)]
    return rcs, subdirs, bases, left, mx
