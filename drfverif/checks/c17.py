"""C17 - mirror fidelity, staged publication and no loss in move mode.

Real recordings (RF channel with nested metadata channel) are produced by the staged writers;
the real DigitalRFMirror handler set is driven through dispatch() with every permutation of the
creation events (plus duplicated / late / stale events and every handler order), with the
file-system operations of mirror.py / ringbuffer.py intercepted: invariants are evaluated at
every operation boundary, inside every copy, and - in move mode - after a simulated crash at
every boundary.
"""

import filecmp
import hashlib
import itertools
import os
import shutil

from .. import core, md, rf, stage

PID = "C17"
N, D = 10, 3


class CrashNow(BaseException):
    pass


def make_recording(src, seed):
    import digital_rf as drf

    chdir = os.path.join(src, "chA")
    mdir = os.path.join(chdir, "metadata")
    os.makedirs(mdir)
    cfg = rf.Cfg(n=N, d=D, fc=500, sc=2, start=md.first_of_ts(1394333998, N, D), cont=False)
    w = rf.open_writer(drf, chdir, cfg)
    w.rf_write(rf.make_values(cfg, seed, cfg["start"], 5))  # three files of 500 ms: .000, .500, .000
    w.close()
    mw = drf.DigitalMetadataWriter(mdir, 10, 2, N, D, "metadata")
    mw.write(cfg["start"] + 1, {"v": 1})
    mw.write(cfg["start"] + 8, {"v": 2})  # second metadata file
    files = []
    for root, dirs, fs in os.walk(src):
        for f in fs:
            files.append(os.path.relpath(os.path.join(root, f), src))
    # explicit distinct mtimes (filecmp.cmp memoises on (size, mtime) signatures)
    for i, rel in enumerate(sorted(files)):
        os.utime(os.path.join(src, rel), (1400000000 + i, 1400000000 + i))
    return sorted(files)


def classify(rel):
    base = os.path.basename(rel)
    if base in ("drf_properties.h5", "dmd_properties.h5"):
        return "prop"
    if base.startswith("rf@"):
        return "rf"
    if base.startswith("metadata@"):
        return "md"
    return "other"


def sha(p):
    with open(p, "rb") as f:
        return hashlib.sha256(f.read()).hexdigest()


def base_events(files):
    """creation events in the order the writers produce them: properties, then data by time"""
    props = [f for f in files if classify(f) == "prop"]
    data = sorted((f for f in files if classify(f) in ("rf", "md")), key=lambda f: (float(os.path.basename(f).split("@")[1][:-3].rstrip(".")), f))
    return [("created", f) for f in props + data]


def histories(files, tier):
    base = base_events(files)
    out = []
    perms = list(itertools.permutations(range(len(base))))
    for pi, perm in enumerate(perms):
        evs = [base[i] for i in perm]
        out.append(evs)
        # (all 720 orders of the creation events are run; the duplicated / late / stale / consumer variants are derived
        #  from every 97th order in the quick tier and every 11th in the thorough tier)
        full = pi == 0 or pi % (97 if tier == "quick" else 11) == 0
        if full:
            for i, (k, f) in enumerate(evs):
                out.append(evs[: i + 1] + [(k, f)] + evs[i + 1:])      # duplicated right away
                out.append(evs + [(k, f)])                               # duplicated late
                out.append(evs + [("modified", f)])                      # late modified
                out.append(evs[:i] + [("tmpmove", f)] + evs[i + 1:])    # finalizing rename instead of creation
                if i + 1 < len(evs):
                    # a downstream consumer empties the destination (files and emptied subdirectories) between two events
                    out.append(evs[: i + 1] + [("consume", "")] + evs[i + 1:])
            for (k, f) in evs:
                if classify(f) in ("md", "prop"):
                    out.append(evs + [("rewrite_modified", f)])              # in-place update, then its modified event
                    out.append(evs + [("rewrite_modified", f), ("modified", f)])
            out.append(evs + [("created", "chA/2014-03-09T12-30-30/rf@1394368299.000.h5")])  # stale: file never existed
            # stale events for a metadata file that is gone by the time the event is handled
            out.append(evs + [("created", "chA/metadata/2014-03-09T12-30-30/metadata@1394368290.h5")])
            out.append(evs + [("modified", "chA/metadata/2014-03-09T12-30-30/metadata@1394368290.h5")])
            out.append([("deleted", evs[-1][1])] + evs)
    return out


class Interceptor:
    """wraps the file-system functions mirror.py/ringbuffer.py use; calls `observe` at every boundary"""

    NAMES = [(os, "rename"), (os, "makedirs"), (os, "link"), (os, "remove"), (os, "rmdir"), (shutil, "copy2"), (shutil, "move")]

    def __init__(self, observe, crash_at=None, fault_at=None):
        self.observe = observe
        self.crash_at = crash_at
        self.fault_at = fault_at
        self.n = 0
        self.saved = {}
        self.in_wrapped = 0

    def boundary(self, what):
        if self.in_wrapped > 1:
            return  # nested call (shutil.move -> os.rename): the outer call is the boundary
        i = self.n
        self.n += 1
        if self.crash_at is not None and i == self.crash_at:
            raise CrashNow(what)
        if self.fault_at is not None and i == self.fault_at:
            self.observe(i, what)
            raise OSError(5, "injected I/O error before " + what)
        self.observe(i, what)

    def __enter__(self):
        for mod, name in self.NAMES:
            real = getattr(mod, name)
            self.saved[(mod, name)] = real

            def wrapper(*a, _real=real, _name=name, **k):
                self.in_wrapped += 1
                try:
                    self.boundary("%s%r" % (_name, tuple(os.path.basename(str(x)) for x in a[:2])))
                    if _name == "copy2" and self.in_wrapped == 1:
                        # expose a half-written destination before the copy completes
                        src, dst = a[0], a[1]
                        try:
                            with open(src, "rb") as fi:
                                data = fi.read()
                            with open(dst, "wb") as fo:
                                fo.write(data[: len(data) // 2])
                            self.observe(-1, "inside copy2 -> %s" % os.path.basename(dst))
                        except OSError:
                            pass
                    return _real(*a, **k)
                finally:
                    self.in_wrapped -= 1

            setattr(mod, name, wrapper)
        return self

    def __exit__(self, *exc):
        for (mod, name), real in self.saved.items():
            setattr(mod, name, real)


def run_job(job):
    import digital_rf as drf
    from digital_rf import mirror as mirror_mod
    from watchdog.events import FileCreatedEvent, FileDeletedEvent, FileModifiedEvent, FileMovedEvent

    method, windowed, hists, handler_orders, crash = job
    seed = core.seed()
    part = core.new_part()
    root = core.new_scratch()
    try:
        master = os.path.join(root, "master")
        files = make_recording(master, seed)
        master_sha = {f: sha(os.path.join(master, f)) for f in files}
        rf_files = sorted(f for f in files if classify(f) == "rf")
        md_files = sorted(f for f in files if classify(f) == "md")
        start = end = None
        selected = set(files)
        if windowed:
            # window cutting the set: from the second RF file on
            import datetime

            t2 = float(os.path.basename(rf_files[1]).split("@")[1][:-3])
            start = datetime.datetime.fromtimestamp(t2, tz=datetime.timezone.utc)
            if method != "move":
                # the same instant as a naive datetime (which the package reads as UTC) - the process zone is not UTC
                start = start.replace(tzinfo=None)
            selected = {f for f in files if classify(f) == "prop" or float(os.path.basename(f).split("@")[1][:-3].rstrip(".")) >= t2}
        run_no = 0
        for hist in hists:
            for order in handler_orders:
                crash_points = [None]
                if crash:
                    crash_points = [None] + list(range(0, 40))
                fault_mode = crash == "fault"
                for cp in crash_points:
                    run_no += 1
                    src = os.path.join(root, "src%d" % run_no)
                    dest = os.path.join(root, "dest%d" % run_no)
                    shutil.copytree(master, src)
                    os.makedirs(dest)
                    if run_no % 3 == 0:
                        # the monitored directory is reached through a symbolic link (e.g. /data -> /mnt/disk1/data)
                        real_src = src
                        src = os.path.join(root, "link%d" % run_no)
                        os.symlink(real_src, src)
                    filecmp.clear_cache()
                    case = {"method": method, "windowed": windowed, "history": hist, "handler_order": list(order), "crash_at": cp, "seed": seed,
                            "mode": crash if crash else None}
                    errs = []

                    arch = os.path.join(root, "arch%d" % run_no)

                    def observe(i, what, _src=src, _dest=dest, _errs=errs, _arch=arch):
                        # (1) anything under a final destination name is complete and identical to the source version
                        for r_, d_, fs in os.walk(_dest):
                            for f in fs:
                                if f.startswith("tmp."):
                                    continue
                                rel = os.path.relpath(os.path.join(r_, f), _dest)
                                if rel in master_sha and sha(os.path.join(r_, f)) not in (cur_sha.get(rel), alt_sha.get(rel), master_sha[rel]) and len(_errs) < 3:
                                    _errs.append(({"class": "incomplete_file_under_final_name"}, "at boundary %s (%s): %s" % (i, what, rel)))
                        # (2) every RF file has an intact copy in the source or under the destination (tmp. staging counts)
                        for rel in rf_files:
                            cands = [os.path.join(_src, rel), os.path.join(_dest, rel), os.path.join(_arch, rel),
                                     os.path.join(_dest, os.path.dirname(rel), "tmp." + os.path.basename(rel))]
                            if not any(os.path.isfile(c) and sha(c) == master_sha[rel] for c in cands) and len(_errs) < 3:
                                _errs.append(({"class": "rf_file_lost"}, "at boundary %s (%s): no intact copy of %s" % (i, what, rel)))

                    mir = mirror_mod.DigitalRFMirror(src, dest, method=method, starttime=start, endtime=end)
                    handlers = [mir.event_handlers[i] for i in order if i < len(mir.event_handlers)]
                    crashed = False
                    import contextlib
                    import io

                    cur_sha = dict(master_sha)
                    alt_sha = {}
                    with contextlib.redirect_stdout(io.StringIO()), contextlib.redirect_stderr(io.StringIO()), \
                            Interceptor(observe, crash_at=None if fault_mode else cp, fault_at=cp if fault_mode else None) as icp:
                        # handlers capture shutil.copy2/move at construction: rebuild inside the interception
                        mir = mirror_mod.DigitalRFMirror(src, dest, method=method, starttime=start, endtime=end)
                        handlers = [mir.event_handlers[i] for i in order if i < len(mir.event_handlers)]
                        try:
                            for kind, rel in hist:
                                p = os.path.join(src, rel)
                                if kind == "consume":
                                    # (os.replace and the saved originals: the consumer is not the code under test)
                                    for r_, d_, fs_ in os.walk(dest, topdown=False):
                                        for f_ in fs_:
                                            if f_.startswith("tmp."):
                                                continue
                                            rel_ = os.path.relpath(os.path.join(r_, f_), dest)
                                            icp.saved[(os, "makedirs")](os.path.dirname(os.path.join(arch, rel_)), exist_ok=True)
                                            os.replace(os.path.join(r_, f_), os.path.join(arch, rel_))
                                        if r_ != dest and not os.listdir(r_):
                                            icp.saved[(os, "rmdir")](r_)
                                    part["transitions"] += 1
                                    continue
                                if kind == "rewrite_modified":
                                    # the writer updates the file in place: same size, same modification second
                                    if not os.path.exists(p):
                                        continue
                                    st_ = os.stat(p)
                                    with open(p, "r+b") as fh:
                                        fh.seek(st_.st_size // 2)
                                        byte = fh.read(1)
                                        fh.seek(st_.st_size // 2)
                                        fh.write(bytes([byte[0] ^ 0x5A]))
                                    # same whole second, different sub-second time stamp (as a real in-place update)
                                    os.utime(p, ns=(st_.st_atime_ns, st_.st_mtime_ns // 10**9 * 10**9 + 250000000 + len(alt_sha) * 1000))
                                    alt_sha[rel] = cur_sha[rel]
                                    cur_sha[rel] = sha(p)
                                    ev = FileModifiedEvent(p)
                                elif kind == "created":
                                    ev = FileCreatedEvent(p)
                                elif kind == "modified":
                                    ev = FileModifiedEvent(p)
                                elif kind == "deleted":
                                    ev = FileDeletedEvent(p)
                                else:
                                    ev = FileMovedEvent(os.path.join(os.path.dirname(p), "tmp." + os.path.basename(p)), p)
                                for h in handlers:
                                    h.dispatch(ev)
                                part["transitions"] += 1
                        except CrashNow:
                            crashed = True
                        except Exception as e:  # noqa: BLE001
                            errs.append(({"class": "handler_raised", "exc": type(e).__name__}, repr(e)))
                        nops = icp.n
                    part["evaluations"] += 1
                    if cp is not None and ((not fault_mode and not crashed) or (fault_mode and cp >= nops)):
                        core.rm(src)
                        core.rm(dest)
                        break  # crash/fault point beyond the last operation: this history is covered
                    if os.path.isdir(arch):
                        # what the consumer took away counts as delivered: put it back for the final comparison
                        for r_, d_, fs_ in os.walk(arch):
                            for f_ in fs_:
                                rel_ = os.path.relpath(os.path.join(r_, f_), arch)
                                if not os.path.exists(os.path.join(dest, rel_)):
                                    os.makedirs(os.path.dirname(os.path.join(dest, rel_)), exist_ok=True)
                                    os.replace(os.path.join(r_, f_), os.path.join(dest, rel_))
                        core.rm(arch)
                    observe("end", "after history")
                    if crashed and not fault_mode and method != "move":
                        # the mirror process died at that boundary; a new one is started over the same directories and
                        # is told about every file again: afterwards everything selected is mirrored, nothing is staged
                        with contextlib.redirect_stdout(io.StringIO()), contextlib.redirect_stderr(io.StringIO()):
                            mir2 = mirror_mod.DigitalRFMirror(src, dest, method=method, starttime=start, endtime=end)
                            handlers2 = [mir2.event_handlers[i] for i in order if i < len(mir2.event_handlers)]
                            try:
                                for kind, rel in base_events(files):
                                    if os.path.exists(os.path.join(src, rel)):
                                        for h in handlers2:
                                            h.dispatch(FileCreatedEvent(os.path.join(src, rel)))
                            except Exception as e:  # noqa: BLE001
                                errs.append(({"class": "restarted_mirror_raised", "exc": type(e).__name__}, repr(e)))
                        rest = end_oracle(method, src, dest, files, selected, cur_sha, base_events(files), rf_files, md_files)
                        # (copy and link only: in move mode a file staged before the crash is not in the source any more, its
                        #  event is not repeated, and the statement asks for no more than an intact copy somewhere)
                        errs += [(dict(k, after_restart=True), d_) for k, d_ in rest if k["class"] in (
                            "selected_file_not_mirrored", "mirrored_content_differs", "incomplete_file_under_final_name")]
                    if crashed and not fault_mode and method == "move":
                        # move mode: the mirror died at that boundary, a new one is started over the same directories and
                        # receives an event for every file again - late/repeated notifications for files that are already
                        # (half-)moved are stale by now.  Whatever it does with them, every RF file keeps an intact copy
                        # (source, destination or its tmp. staging name) and nothing incomplete gets a final name.
                        n_before = len(errs)
                        with contextlib.redirect_stdout(io.StringIO()), contextlib.redirect_stderr(io.StringIO()):
                            mir2 = mirror_mod.DigitalRFMirror(src, dest, method=method, starttime=start, endtime=end)
                            handlers2 = [mir2.event_handlers[i] for i in order if i < len(mir2.event_handlers)]
                            try:
                                for kind, rel in base_events(files):
                                    for h in handlers2:
                                        h.dispatch(FileCreatedEvent(os.path.join(src, rel)))
                            except Exception as e:  # noqa: BLE001
                                errs.append(({"class": "restarted_mirror_raised", "exc": type(e).__name__}, repr(e)))
                        observe("restart", "after a restarted mirror was told about every file again")
                        errs[n_before:] = [(dict(k, after_restart=True), d_) for k, d_ in errs[n_before:]]
                    if not crashed and not (fault_mode and cp is not None):
                        errs += end_oracle(method, src, dest, files, selected, cur_sha, hist, rf_files, md_files)
                        part["traces"] += 1
                    part["outcomes"]["%s ops=%d%s" % (method, nops // 5 * 5, " crash" if crashed else "")] += 1
                    for key, detail in errs:
                        if len(part["violations"]) < 12:
                            part["violations"].append(core.Violation(key, case, detail))
                    part["nontrivial"].add(core.canon((method, windowed, hist, list(order), cp)))
                    part["states"].add(core.canon((method, tuple(sorted(os.listdir(dest))), nops, crashed)))
                    if not part["samples"]:
                        part["samples"].append({"method": method, "history": hist, "handler_order": list(order), "fs_operations": nops})
                    if os.path.islink(src):
                        os.unlink(src)
                        src = os.path.join(root, "src%d" % run_no)
                    core.rm(src)
                    core.rm(dest)
    finally:
        core.rm(root)
    return part


def end_oracle(method, src, dest, files, selected, master_sha, hist, rf_files, md_files):
    """after the mirror has processed creation events for every file"""
    import digital_rf as drf

    errs = []
    reported = {rel for kind, rel in hist if kind in ("created", "modified", "tmpmove", "rewrite_modified")}
    dest_files = {}
    for r_, d_, fs in os.walk(dest):
        for f in fs:
            dest_files[os.path.relpath(os.path.join(r_, f), dest)] = os.path.join(r_, f)
    for rel, p in dest_files.items():
        if os.path.basename(rel).startswith("tmp."):
            errs.append(({"class": "tmp_left_at_destination"}, rel))
        elif rel not in master_sha:
            errs.append(({"class": "unexpected_destination_file"}, rel))
    for rel in sorted(selected & reported):
        if rel not in master_sha:
            continue
        dp = os.path.join(dest, rel)
        if not os.path.isfile(dp):
            errs.append(({"class": "selected_file_not_mirrored", "kind": classify(rel), "method": method}, "%s missing at destination" % rel))
        elif sha(dp) != master_sha[rel]:
            errs.append(({"class": "mirrored_content_differs", "kind": classify(rel)}, rel))
        elif method == "link" and os.path.exists(os.path.join(src, rel)) and os.stat(dp).st_ino != os.stat(os.path.join(src, rel)).st_ino:
            errs.append(({"class": "not_hard_linked"}, rel))
    for rel in set(dest_files) - selected:
        if rel in master_sha:
            errs.append(({"class": "unselected_file_mirrored"}, rel))
    if method == "move":
        for rel in rf_files:
            if rel in selected and rel in reported and os.path.exists(os.path.join(src, rel)) and os.path.exists(os.path.join(dest, rel)):
                errs.append(({"class": "moved_file_still_in_source"}, rel))
        newest = md_files[-1]
        if not os.path.exists(os.path.join(src, newest)):
            errs.append(({"class": "newest_metadata_removed_from_source"}, newest))
        for rel in files:
            if classify(rel) == "prop" and not os.path.exists(os.path.join(src, rel)):
                errs.append(({"class": "properties_removed_from_source"}, rel))
    else:
        for rel in files:
            if not os.path.exists(os.path.join(src, rel)) or sha(os.path.join(src, rel)) != master_sha[rel]:
                errs.append(({"class": "source_changed", "method": method}, rel))
    if not errs and all(f in reported for f in selected) and not any(k == "rewrite_modified" for k, _ in hist):
        # the destination is a readable data set with the same data
        try:
            rd = drf.DigitalRFReader(dest)
            b = rd.get_bounds("chA")
            rm = drf.DigitalRFReader(os.path.dirname(src) + "/master")
            got = {k: v.tobytes() for k, v in rd.read(b[0], b[1], "chA").items()} if b[0] is not None else {}
            want = {k: v.tobytes() for k, v in rm.read(b[0], b[1], "chA").items()} if b[0] is not None else {}
            if got != want:
                errs.append(({"class": "destination_reader_differs"}, "bounds %r" % (b,)))
        except Exception as e:  # noqa: BLE001
            errs.append(({"class": "destination_unreadable", "exc": type(e).__name__}, repr(e)))
    return errs


def startup_job(job):
    """DigitalRFMirror.start()'s listing path with the observer never started"""
    from digital_rf import mirror as mirror_mod

    method, ignore_existing = job[:2]
    with_start = len(job) > 2 and job[2]
    seed = core.seed()
    part = core.new_part()
    root = core.new_scratch()
    try:
        master = os.path.join(root, "master")
        files = make_recording(master, seed)
        master_sha = {f: sha(os.path.join(master, f)) for f in files}
        src = os.path.join(root, "src")
        dest = os.path.join(root, "dest")
        shutil.copytree(master, src)
        os.makedirs(dest)
        filecmp.clear_cache()
        start = None
        if with_start:
            # a start time that falls inside an existing metadata file (after its name time): the listing
            # selects that file as forward-fill file, and so must the mirror
            import datetime

            md0 = sorted(f for f in files if classify(f) == "md")[-1]
            tmd = float(os.path.basename(md0).split("@")[1][:-3])
            start = datetime.datetime.fromtimestamp(tmd + 1.0, tz=datetime.timezone.utc)
        mir = mirror_mod.DigitalRFMirror(src, dest, method=method, ignore_existing=ignore_existing, starttime=start)
        mir.observer.start = lambda: None
        import contextlib
        import io

        with contextlib.redirect_stdout(io.StringIO()):
            mir.start()
        rf_files = sorted(f for f in files if classify(f) == "rf")
        md_files = sorted(f for f in files if classify(f) == "md")
        selected = set(files) if not ignore_existing else {f for f in files if classify(f) == "prop"}
        if with_start:
            import digital_rf as drf

            listed = {os.path.relpath(p, src) for p in drf.lsdrf(src, starttime=start)}
            selected = {f for f in files if classify(f) == "prop"} | listed
        hist = [("created", f) for f in sorted(selected)]
        errs = end_oracle(method, src, dest, files, selected, master_sha, hist, rf_files if not ignore_existing else [], md_files)
        if ignore_existing:
            errs = [e for e in errs if e[0]["class"] not in ("destination_unreadable",)]
        part["evaluations"] += 1
        part["traces"] += 1
        part["nontrivial"].add(core.canon(("startup", method, ignore_existing, with_start)))
        part["states"].add(core.canon(("startup", method, ignore_existing, with_start)))
        for key, detail in errs:
            part["violations"].append(core.Violation(dict(key, startup=True), {"startup": [method, ignore_existing, with_start]}, detail))
    finally:
        core.rm(root)
    return part


def late_source_job(method):
    """The mirror is set up before its source directory exists; a finished recording is then moved into place.  The
    watcher's own announcement of what it finds there (no observer thread is started: the queued events are pumped
    through the observer's dispatch_events) must lead to the same end state as live events would."""
    from digital_rf import mirror as mirror_mod
    import contextlib
    import io

    seed = core.seed()
    part = core.new_part()
    root = core.new_scratch()
    try:
        staging = os.path.join(root, "staging")
        files = make_recording(staging, seed)
        master_sha = {f: sha(os.path.join(staging, f)) for f in files}
        src = os.path.join(root, "data", "src")
        dest = os.path.join(root, "dest")
        os.makedirs(os.path.join(root, "data"))
        shutil.copytree(staging, os.path.join(root, "data", "master"))  # (reference copy the end oracle reads)
        os.makedirs(dest)
        errs = []
        with contextlib.redirect_stdout(io.StringIO()), contextlib.redirect_stderr(io.StringIO()):
            mir = mirror_mod.DigitalRFMirror(src, dest, method=method)
            obs = mir.observer
            obs._stop_watching_path()        # what DirWatcher.start() does while the path is missing
            os.rename(staging, src)
            obs._start_watching_path()       # what it does when the path appears
            n = 0
            try:
                while not obs.event_queue.empty() and n < 10000:
                    obs.dispatch_events(obs.event_queue)
                    n += 1
            except Exception as e:  # noqa: BLE001
                errs.append(({"class": "handler_raised", "exc": type(e).__name__}, repr(e)))
            obs._stop_watching_path()
        rf_files = sorted(f for f in files if classify(f) == "rf")
        md_files = sorted(f for f in files if classify(f) == "md")
        hist = [("created", f) for f in files]
        errs += end_oracle(method, src, dest, files, set(files), master_sha, hist, rf_files, md_files)
        part["evaluations"] += 1
        part["transitions"] += n
        part["traces"] += 1
        part["nontrivial"].add(core.canon(("late_source", method)))
        part["states"].add(core.canon(("late_source", method)))
        part["outcomes"]["late_source events=%d" % n] += 1
        for key, detail in errs:
            part["violations"].append(core.Violation(dict(key, late_source=True), {"late_source": method}, detail))
    finally:
        core.rm(root)
    return part


def jobs(tier):
    seed_files = None
    out = []
    # file list is deterministic; build the history list once from a throw-away recording
    root = core.new_scratch()
    try:
        files = make_recording(os.path.join(root, "m"), 0)
    finally:
        core.rm(root)
    hs = histories(files, tier)
    for method in ("copy", "link", "move"):
        nh = 3 if method == "move" else 2
        orders = list(itertools.permutations(range(nh)))
        for windowed in (False, True):
            use = hs if not windowed else hs[:: (5 if tier == "quick" else 2)]
            use_orders = orders if tier != "quick" else orders[:1] + orders[-1:]
            for i in range(0, len(use), 60):
                out.append((method, windowed, use[i:i + 60], use_orders if i % 240 == 0 else use_orders[:1], False))
    # crash points in move mode: base order + a few permutations, every boundary
    base = base_events(files)
    crash_h = [base, list(reversed(base)), base + [base[-1]], base[2:] + base[:2]]
    if tier != "quick":
        crash_h += [list(p) for p in list(itertools.permutations(base))[::97]]
    for h in crash_h:
        out.append(("move", False, [h], [tuple(range(3))], "crash"))
        out.append(("copy", False, [h], [tuple(range(2))], "crash"))
        if h is crash_h[0] or tier != "quick":
            out.append(("link", False, [h], [tuple(range(2))], "crash"))
        out.append(("move", False, [h], [tuple(range(3))], "fault"))
        out.append(("link", False, [h], [tuple(range(2))], "fault"))
    return out


def replay(case):
    if "late_source" in case:
        return [(v["key"], v["detail"]) for v in late_source_job(case["late_source"])["violations"]]
    if "startup" in case:
        part = startup_job(tuple(case["startup"]))
    else:
        os.environ["VERIF_SEED"] = str(case.get("seed", 0))
        part = run_job((case["method"], case["windowed"], [[tuple(e) for e in case["history"]]], [tuple(case["handler_order"])],
                        case.get("mode") or (case["crash_at"] is not None)))
        return [(v["key"], v["detail"]) for v in part["violations"] if v["case"]["crash_at"] == case["crash_at"]]
    return [(v["key"], v["detail"]) for v in part["violations"]]


def main(tier):
    chk = core.Check(
        PID, tier, "model_checking",
        rule=("real recording (RF channel with 3 data files + nested metadata channel with 2 files + 2 properties files) x "
              "methods {copy, link, move} x time window {none, cutting the set} x ALL permutations of the creation events "
              "(%s additionally each with one duplicated event at every position / late duplicate / late modified / the "
              "finalizing tmp->final move instead of the creation / a stale event / a deletion first) x handler dispatch orders "
              "(watchdog keeps handlers in a set); the real DigitalRFMirror handlers are driven by dispatch(); os.rename, "
              "os.makedirs, os.link, os.remove, os.rmdir, shutil.copy2, shutil.move are intercepted: invariants at every boundary "
              "and inside every copy; for move (and copy) a crash, and for move/link a one-shot I/O error, is injected at every boundary of selected histories; metadata/properties files are also rewritten in place (same size, same whole mtime second, different sub-second part) followed by their modified event; "
              "plus DigitalRFMirror.start()'s replay of existing files for every method x ignore_existing.")
        % ("every 97th permutation" if tier == "quick" else "every 11th permutation"),
        assumptions=["crash = exception thrown out of the handler at an operation boundary of the mirror (no page-cache loss)",
                     "source and destination are on one file system (shutil.move is a rename)"],
    )
    stage.activate()
    js = jobs(tier)
    rot = core.seed() % len(js)
    js = js[rot:] + js[:rot]
    for part in core.pmap(run_job, js, chunksize=1):
        chk.merge(part)
    sjobs = [(m, ie) for m in ("copy", "link", "move") for ie in (False, True)] + [(m, False, True) for m in ("copy", "link", "move")]
    for part in core.pmap(startup_job, sjobs, chunksize=1):
        chk.merge(part)
    for part in core.pmap(late_source_job, ["copy", "link", "move"], chunksize=1):
        chk.merge(part)
    return chk.finish()
