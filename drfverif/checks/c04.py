"""C04 - deterministic time-partitioned file layout.

(1) every history of the C01 layout universe is run on the staged writer and every file
    on disk is compared with the big-integer model (names, contents, no index twice);
(2) the real digital_rf_get_subdir_file is swept through ctypes over rate x cadence x k
    grids (complete small scope + every k within +-2 samples of each file boundary in a
    window at realistic rates) against the exact model.
"""

import os

from .. import chelper, core, rf, rfjobs, stage, universe as U
from . import c01

PID = "C04"


def hist_jobs(tier):
    jobs = []
    for j in c01.layout_jobs(tier):
        _, cfg, hists, label = j
        jobs.append({"cfg": cfg, "hists": [h for h, _ in hists], "oracles": ["layout"], "label": label})
    for j in c01.fp_jobs(tier):
        _, cfg, ops, firsts, label = j
        jobs.append({"cfg": cfg, "hists": [ops], "oracles": ["layout"], "label": label})
    return jobs


def grid_jobs(tier):
    jobs = []
    # (a) small scope, complete
    N = 10 if tier == "quick" else 16
    K = 512 if tier == "quick" else 2048
    for n in range(1, N + 1):
        for d in range(1, N + 1):
            for fc, sc in ((1000, 1), (1000, 3), (400, 2), (2000, 4), (3, 3), (7, 7), (250, 1)):
                if n * fc < d * 1000:
                    continue
                for start in (0, rf.first_sample_of_ms(1394333998000, n, d) - 3):
                    jobs.append(("small", n, d, sc, fc, start, 0, K))
    # (b) realistic magnitude: every k within +-2 of each boundary in a window of W files
    W = 2000 if tier == "quick" else 100000
    for (n, d, fc, sc, j0, _w) in U.fp_cases(W):
        for base in range(0, W, 2000):
            jobs.append(("fp", n, d, sc, fc, j0 + base, min(2000, W - base)))
    return jobs


def expect(n, d, sc, fc, k):
    ms = rf.file_ms(k, n, d, fc)
    lo = rf.first_sample_of_ms(ms, n, d)
    hi = rf.first_sample_of_ms(ms + fc, n, d)
    return (rf.subdir_name(rf.subdir_sec(k, n, d, sc)), "tmp.rf@%d.%03d.h5" % (ms // 1000, ms % 1000), hi - k, hi - lo)


def run_grid(job):
    part = core.new_part()
    if job[0] == "small":
        _, n, d, sc, fc, start, k0, K = job
        krel = list(range(k0, k0 + K))
    else:
        _, n, d, sc, fc, j0, w = job
        start = rf.first_sample_of_ms(j0 * fc, n, d) - 5
        ks = set()
        for j in range(j0, j0 + w):
            f = rf.first_sample_of_ms(j * fc, n, d)
            ks.update((f - 2, f - 1, f, f + 1, f + 2))
        krel = sorted(k - start for k in ks if k >= start)
    rcs, subdirs, bases, left, mx = chelper.subdir_file_batch(n, d, sc, fc, start, krel)
    files = set()
    for i, kr in enumerate(krel):
        k = start + kr
        e = expect(n, d, sc, fc, k)
        got = (subdirs[i], bases[i], int(left[i]), int(mx[i]))
        files.add(e[1])
        if rcs[i] != 0 or got != e:
            part["violations"].append(core.Violation(
                {"class": "subdir_file_function"},
                {"grid": list(job), "k": k},
                "digital_rf_get_subdir_file(n=%d,d=%d,sc=%d,fc=%d,k=%d) rc=%d -> %r, exact model %r" % (n, d, sc, fc, k, rcs[i], got, e)))
            if len(part["violations"]) > 3:
                break
    part["evaluations"] += len(krel)
    part["transitions"] += len(krel)
    part["nontrivial"].add(core.canon(job))
    part["states"].update(core.canon((n, d, fc, f)) for f in list(files)[:50])
    part["outcomes"]["files_per_job~%d" % (len(files) // 100 * 100)] += 1
    if job[0] == "fp" and not part["samples"]:
        part["samples"].append({"grid": list(job), "first_k": start + krel[0], "first_result": [subdirs[0], bases[0], int(left[0]), int(mx[0])]})
    return part


def conformance_job(job):
    """file names produced by real recordings equal the function's answers (ties sweep to behaviour)"""
    part = rfjobs.run_hist_job(job)
    return part


def replay(case):
    if "grid" in case:
        part = run_grid(tuple(case["grid"]))
        return [(v["key"], v["detail"]) for v in part["violations"]]
    return rfjobs.replay_hist(case)


def main(tier):
    chk = core.Check(
        PID, tier, "model_checking",
        rule=("(1) every write history of the C01 layout and boundary universes is executed and each produced "
              "rf@*.h5 (name, subdirectory, stored index set, capacity) compared with the exact model; "
              "(2) the real digital_rf_get_subdir_file is swept over complete small scopes (n,d<=N, 7 cadence pairs, "
              "K consecutive k, two epochs) and over every k within +-2 samples of each file boundary in a window of "
              "W consecutive files for 8 realistic rates x cadences x 2 epochs. evaluations counts (history + grid "
              "point); distinct_nontrivial counts distinct (config, written-set) histories plus grid jobs."),
        assumptions=["the ctypes wrapper fills only the fields digital_rf_get_subdir_file reads (struct from the real header)",
                     "values of k strictly between grid points at large magnitude are not covered"],
    )
    stage.activate()
    hj = hist_jobs(tier)
    gj = grid_jobs(tier)
    rot = core.seed() % max(1, len(hj))
    hj = hj[rot:] + hj[:rot]
    for part in core.pmap(rfjobs.run_hist_job, hj, chunksize=1):
        chk.merge(part)
    nh = chk.evaluations
    for part in core.pmap(run_grid, gj, chunksize=4):
        chk.merge(part)
    chk.extra["histories"] = nh
    chk.extra["grid_points"] = chk.evaluations - nh
    return chk.finish()
