"""C01 - RF write/read round-trip fidelity (sequence explorer, lock-step model)."""

import os
import subprocess

import numpy as np

from .. import core, rf, rfrun, stage, universe as U

PID = "C01"


# ---------------------------------------------------------------- job generation
def _cfg(n, d, fc, sc, start, mode, **kw):
    return rf.Cfg(n=n, d=d, fc=fc, sc=sc, start=start, **U.MODES[mode], **kw)


def layout_jobs(tier):
    """U-layout: rates x modes x start positions x all sequences"""
    jobs = []
    if tier == "quick":
        seqs2 = U.write_seqs(2, U.L_FULL, U.G_FULL)
        seqs3 = [s for s in U.write_seqs(3, U.L_RED, U.G_RED) if len(s) == 3]
        blocks = U.block_layouts(2, lens=(1, 3, 5), gaps=(1, 4, 9), first=(0, 2)) + \
            U.block_layouts(3, lens=(1, 3), gaps=(1, 9), first=(0,))
        mixed = [[b, U.shift_op(("w", g, L), U.op_end(b))] for b in blocks[::3] for L in (1, 9) for g in (0, 2)]
        mixed += [[("w", 0, L), U.shift_op(b, L + 0)] for b in blocks[::3] for L in (1, 9)]
        epochs = U.EPOCHS[1:2]
    else:
        seqs2 = U.write_seqs(2, U.L_FULL, U.G_FULL)
        seqs3 = [s for s in U.write_seqs(3, U.L_RED, U.G_RED) if len(s) == 3]
        seqs4 = [s for s in U.write_seqs(4, U.L_RED, U.G_RED) if len(s) == 4]
        blocks = U.block_layouts(2) + U.block_layouts(3, lens=(1, 2, 5), gaps=(1, 2, 9), first=(0, 2))
        mixed = [[b, U.shift_op(("w", g, L), U.op_end(b))] for b in blocks[::2] for L in (1, 3, 9) for g in (0, 2)]
        mixed += [[("w", 0, L), U.shift_op(b, L + g)] for b in blocks[::2] for L in (1, 3, 9) for g in (0, 2)]
        epochs = U.EPOCHS
    mixed3 = []
    for b in blocks[::5]:
        for L in (1, 3):
            first = ("w", 0, L)
            mid = U.shift_op(b, L + 1)
            mixed3.append([first, mid, U.shift_op(("w", 2, 2), U.op_end(mid))])
            mixed3.append([first, mid, U.shift_op(("w", 0, 1), U.op_end(mid)), U.shift_op(("w", 1, 2), U.op_end(mid) + 1)])
    # a restarted recorder (new session) whose first write falls into a file period published by the first
    # session (must be refused: the model marks such writes as blocked), then continues in a free period
    resume = []
    for L in (1, 3, 9):
        resume.append([("w", 0, L), ("open", {"uuid": "resumed-session"}), ("w", 0, 2), ("w", 60, 2)])
        resume.append([("w", 0, L), ("w", L + 2, 2), ("open", {"uuid": "resumed-session", "start_delta": L + 1}), ("w", 0, 3), ("w", 70, 1)])
    # a write after a gap, then an append that relies on the writer's own next-available sample (no index given)
    appended = [[("w", 0, L), ("w", L + G, L2), ("wn", 2), ("wn", 1)] for L in (1, 3) for G in (2, 9) for L2 in (1, 3)]
    appended += [[b, ("wn", 2)] for b in blocks[::4]]
    hist_all = [(s, "linear") for s in seqs2] + [(s, "full") for s in seqs3] + \
        [([b], "linear") for b in blocks] + [(m, "full") for m in mixed] + [(m, "full") for m in mixed3] + \
        [(m, "full") for m in resume] + [(m, "full") for m in appended]
    # compression / checksum variants share the chunked code path with gapped mode: in the quick
    # tier they get a third of the depth-2 sequences plus all block layouts
    hist_light = [(s, "linear") for s in seqs2[::3]] + [([b], "linear") for b in blocks]
    ci = 0
    for (n, d, fc, sc) in U.LAYOUT_RATES:
        starts = U.start_positions(n, d, fc, sc, epochs)
        for mi, mode in enumerate(U.MODES):
            # quick: every (rate, mode) pair, start positions rotated so that each position is
            # used with each rate; thorough: the full product
            if tier == "quick":
                sel = [starts[ci % len(starts)]]
                hs = hist_all if mode in ("gapped", "cont") else hist_light
            else:
                # thorough: every start position of one epoch for the two base modes (other epochs rotate),
                # a third of them for the compression/checksum variants; depth-4 sequences for the first
                # two rates in the two base modes at two start positions
                per_epoch = len(starts) // len(epochs)
                ep = ci % len(epochs)
                sel = starts[ep * per_epoch:(ep + 1) * per_epoch]
                if mode in ("gapped", "cont"):
                    hs = hist_all
                else:
                    sel = sel[::3]
                    hs = hist_light + [(s, "full") for s in seqs3[::2]]
                if mode in ("gapped", "cont") and (n, d) in ((10, 3), (200, 3)):
                    for (k0, label) in sel[1:6:4]:
                        cfg = _cfg(n, d, fc, sc, k0, mode)
                        h4 = [(s, "full") for s in seqs4]
                        for i in range(0, len(h4), 60):
                            jobs.append(("hist", dict(cfg), h4[i:i + 60], "%d/%d %dms %s %s depth4" % (n, d, fc, mode, label)))
            ci += 1
            for (k0, label) in sel:
                cfg = _cfg(n, d, fc, sc, k0, mode)
                for i in range(0, len(hs), 40):
                    jobs.append(("hist", dict(cfg), hs[i:i + 40], "%d/%d %dms %s %s" % (n, d, fc, mode, label)))
    return jobs


def fp_jobs(tier):
    """U-fp: for every file number j in a window, samples on both sides of the file boundary"""
    W = 64 if tier == "quick" else 1024
    per = 16
    jobs = []
    for (n, d, fc, sc, j0, w) in U.fp_cases(W):
        for mode in (("gapped",) if tier == "quick" else ("gapped", "cont")):
            for base in range(0, w, per):
                js = list(range(j0 + base + 1, j0 + base + 1 + per))
                firsts = [rf.first_sample_of_ms(j * fc, n, d) for j in js]
                # blocks of 2 samples straddling each boundary: [first-1, first]
                ks = []
                for f in firsts:
                    if ks and f - 1 <= ks[-1]:
                        continue
                    ks.extend((f - 1, f))
                start = ks[0]
                g, b = [], []
                pos = 0
                i = 0
                while i < len(ks):
                    jn = i
                    while jn + 1 < len(ks) and ks[jn + 1] == ks[jn] + 1:
                        jn += 1
                    g.append(ks[i] - start)
                    b.append(pos)
                    pos += jn - i + 1
                    i = jn + 1
                if mode == "cont" and n * fc // (d * 1000) > 5000:
                    continue  # continuous files of > 5000 slots: skipped for cost, stated in evidence
                cfg = _cfg(n, d, fc, sc, start, mode)
                jobs.append(("fp", dict(cfg), [("wb", g, b, pos)], firsts, "%d/%d %dms j=%d.." % (n, d, fc, js[0])))
    return jobs


def type_jobs(tier):
    jobs = []
    n, d, fc, sc = 10, 3, 1000, 2
    start = rf.first_sample_of_ms(1394333998000 // 2000 * 2000, n, d)
    nsubs = (1, 2) if tier == "quick" else (1, 2, 3)
    for over, mname in U.type_cfgs(nsubs=nsubs):
        cfg = rf.Cfg(n=n, d=d, fc=fc, sc=sc, start=start, **over)
        hists = []
        for name, ops in U.GAP_LAYOUTS.items():
            hists.append((ops, "linear" if tier == "thorough" else "full"))
        jobs.append(("hist", dict(cfg), hists, "type %s%d%s %s nsub=%d %s" % (
            over["kind"], over["size"], over["order"], "cplx" if over["cplx"] else "real", over["nsub"], mname)))
    return jobs


def twochan_jobs(tier):
    """two channels of one recording written alternately by one process whose working directory is the
    first channel's directory (names of existing directories must not leak into the other channel's layout)"""
    jobs = []
    for (n, d, fc, sc) in U.LAYOUT_RATES[:2] + U.LAYOUT_RATES[4:5]:
        starts = U.start_positions(n, d, fc, sc, U.EPOCHS[1:2])
        for mode in ("gapped", "cont"):
            for (k0, label) in starts[::3]:
                for L in (2, 4, 7):
                    jobs.append(("twochan", dict(_cfg(n, d, fc, sc, k0, mode)), L, "two channels %d/%d %s %s L=%d" % (n, d, mode, label, L)))
    return jobs


def run_twochan(cfgd, L, seed, part, label):
    import digital_rf as drf

    top = core.new_scratch()
    cwd = os.getcwd()
    try:
        cfgs = {name: rf.Cfg(**dict(cfgd, ch=name)) for name in ("chA", "chB")}
        models, writers = {}, {}
        for name, cfg in cfgs.items():
            os.makedirs(os.path.join(top, name))
            models[name] = rf.Model()
            models[name].open_session(cfg)
        os.chdir(os.path.join(top, "chA"))
        for name, cfg in cfgs.items():
            writers[name] = rf.open_writer(drf, os.path.join(top, name), cfg)
        case = {"universe": "twochan", "cfg": cfgd, "L": L, "seed": seed}
        for rnd in range(5):
            for name in ("chA", "chB"):
                cfg, m = cfgs[name], models[name]
                g, b, length = [m.cursor + (rnd % 2)], [0], L
                arr = rf.values_for(cfg, seed, g, b, length)
                try:
                    writers[name].rf_write(arr, g[0])
                except Exception as e:  # noqa: BLE001
                    part["violations"].append(core.Violation({"class": "valid_write_rejected", "universe": "twochan"}, case,
                                                             "round %d channel %s: %r" % (rnd, name, e)))
                    return
                m.apply_write(g, b, rf.row_bytes(arr))
                part["transitions"] += 1
        for name in cfgs:
            writers[name].close()
            models[name].close_session()
        os.chdir(cwd)
        reader = drf.DigitalRFReader(top)
        for name, cfg in cfgs.items():
            run = rfrun.Run()
            run.model, run.cfg, run.top, run.chdir = models[name], cfg, top, os.path.join(top, name)
            errs, nr = rfrun.oracle_roundtrip(run, reader, "linear", edge_limit=24)
            errs += rfrun.oracle_layout(run)
            for key, detail in errs:
                part["violations"].append(core.Violation(dict(key, universe="twochan", channel=name), case, detail))
        reader.close()
        part["evaluations"] += 1
        part["traces"] += 1
        st = core.canon(("twochan", cfgd["n"], cfgd["d"], cfgd["cont"], cfgd["start"], L))
        part["states"].add(st)
        part["nontrivial"].add(st)
        part["outcomes"]["twochan"] += 1
    finally:
        os.chdir(cwd)
        core.rm(top)


def capi_jobs(tier):
    """the same block sequences through the public C API (ASan/UBSan driver)"""
    jobs = []
    seqs = U.write_seqs(2, U.L_RED, U.G_RED)
    blocks = U.block_layouts(2, lens=(1, 3, 5), gaps=(1, 4, 9), first=(0, 2))
    if tier == "thorough":
        seqs = U.write_seqs(2, U.L_FULL, U.G_FULL) + [s for s in U.write_seqs(3, U.L_RED, U.G_RED) if len(s) == 3]
        blocks = U.block_layouts(2) + U.block_layouts(3, lens=(1, 3), gaps=(1, 9), first=(0,))
    hists = seqs + [[b] for b in blocks] + [[b, U.shift_op(("w", 2, 3), U.op_end(b))] for b in blocks[::4]]
    for ri, (n, d, fc, sc) in enumerate(U.LAYOUT_RATES[:3] if tier == "quick" else U.LAYOUT_RATES):
        starts = U.start_positions(n, d, fc, sc, U.EPOCHS[1:2])
        for mi, mode in enumerate(("gapped", "cont", "gapped+gz9+cks")):
            k0, label = starts[(ri + mi) % len(starts)]
            for kind, size, order, cplx, nsub in ((("i", 2, "<", False, 1),) if tier == "quick" else
                                                  (("i", 2, "<", False, 1), ("f", 4, ">", True, 2))):
                cfg = _cfg(n, d, fc, sc, k0, mode, kind=kind, size=size, order=order, cplx=cplx, nsub=nsub)
                hs = [h for h in hists if not (mode == "cont" and any(o[0] == "wb" and len(o[1]) > 1 for o in h))]
                if mode == "cont":
                    # the C API refuses any multi-block description on a continuous channel - blocks that adjoin
                    # (no gap between them) included - and stays usable
                    hs = hs + [[("wb", [0, 3], [0, 3], 6), ("w", 8, 2)], [("wb", [2, 7], [0, 3], 6), ("w", 12, 2)],
                               [("w", 0, 2), ("wb", [2, 4, 6], [0, 2, 4], 6), ("w", 9, 1)]]
                for i in range(0, len(hs), 20):
                    jobs.append(("capi", dict(cfg), hs[i:i + 20], "C-API %d/%d %s %s" % (n, d, mode, label)))
    return jobs


# ---------------------------------------------------------------- C-API execution
def run_capi(cfg, ops, seed, top):
    """Drive the sanitizer-built C driver; returns (model, list of (rc, before, after), stderr, exit)"""
    st = stage.activate()
    chdir = os.path.join(top, cfg["ch"])
    os.makedirs(chdir, exist_ok=True)
    model = rf.Model()
    model.open_session(cfg)
    datafile = os.path.join(top, "data.bin")
    esc = lambda p_: p_.replace(" ", "\x01")  # the driver's line protocol is blank-separated
    lines = ["create %s %s %s %d %d %d %d %d %d %s %d %d %d %d %d" % (
        esc(chdir), cfg["order"], cfg["kind"], cfg["size"], cfg["sc"], cfg["fc"], cfg["start"], cfg["n"], cfg["d"],
        cfg["uuid"], cfg["comp"], int(cfg["cks"]), int(cfg["cplx"]), cfg["nsub"], int(cfg["cont"]))]
    blob = b""
    expect = []
    for op in ops:
        g, b, length = rf.op_blocks(op, model.cursor)
        reason = model.check_blocks(g, b, length)
        if cfg["cont"] and len(g) > 1 and reason is None:
            reason = "gapped_call_in_continuous"
        arr = rf.values_for(cfg, seed, g, b, length)
        raw = arr.tobytes()
        if op[0] == "w":
            lines.append("write %d %d %s %d %d" % (g[0], length, esc(datafile), len(blob), len(raw)))
        else:
            lines.append("wblocks %d %s %d %s %d %d" % (
                len(g), " ".join("%d %d" % (x, y) for x, y in zip(g, b)), length, esc(datafile), len(blob), len(raw)))
        blob += raw
        if reason is None:
            model.apply_write(g, b, rf.row_bytes(arr))
        expect.append((reason, model.cursor))
    lines.append("last")
    lines.append("close")
    with open(datafile, "wb") as f:
        f.write(blob)
    env = dict(os.environ, ASAN_OPTIONS="detect_leaks=0:abort_on_error=0", UBSAN_OPTIONS="print_stacktrace=1")
    p = subprocess.run([os.path.join(st, "drf_cdriver")], input="\n".join(lines) + "\n", capture_output=True,
                       text=True, env=env)
    model.close_session()
    os.unlink(datafile)
    res = []
    for ln in p.stdout.splitlines():
        if ln.startswith("R "):
            _, rc, before, after, hf = ln.split()
            res.append((int(rc), int(before), int(after), int(hf)))
    return model, expect, res, p


# ---------------------------------------------------------------- worker
def run_job(job):
    import digital_rf as drf

    seed = core.seed()
    part = core.new_part()
    kind = job[0]
    cfg = rf.Cfg(**job[1])
    if kind == "twochan":
        run_twochan(job[1], job[2], seed, part, job[3])
        return part
    if kind in ("hist", "fp"):
        hists = job[2] if kind == "hist" else [(job[2], "fp")]
        for ops, ranges in hists:
            top = core.new_scratch(long_path=(part["evaluations"] % 2 == 1))
            try:
                run = rfrun.execute(cfg, ops, seed, top)
                part["evaluations"] += 1
                part["traces"] += 1
                part["transitions"] += len(ops)
                st = core.canon((cfg["n"], cfg["d"], cfg["fc"], cfg["sc"], cfg["cont"], cfg["start"],
                                 sorted(run.model.written)))
                part["states"].add(st)
                part["nontrivial"].add(st)
                case = {"universe": kind, "cfg": dict(cfg), "ops": ops, "seed": seed}
                for key, detail in run.errors:
                    part["violations"].append(core.Violation(key, case, detail))
                try:
                    reader = drf.DigitalRFReader(top)
                except Exception as e:  # noqa: BLE001
                    part["violations"].append(core.Violation({"class": "reader_construct"}, case, repr(e)))
                    continue
                if kind == "fp":
                    errs, nr = fp_oracle(run, reader, job[3])
                else:
                    errs, nr = rfrun.oracle_roundtrip(run, reader, ranges)
                part["extra"]["reads"] = part["extra"].get("reads", 0) + nr
                part["outcomes"][("blocks=%d" % len(run.model.runs(cfg=cfg)))] += 1
                for key, detail in errs:
                    key = classify(run, reader, key, detail)
                    part["violations"].append(core.Violation(key, case, detail))
                reader.close()
                if not part["samples"]:
                    part["samples"].append({"label": job[-1], "cfg": dict(cfg), "ops": ops,
                                            "runs": [(k, len(v)) for k, v in run.model.runs(cfg=cfg)][:8]})
            finally:
                core.rm(top)
    elif kind == "capi":
        for ops in job[2]:
            top = core.new_scratch()
            try:
                model, expect, res, p = run_capi(cfg, ops, seed, top)
                part["evaluations"] += 1
                part["traces"] += 1
                part["transitions"] += len(ops)
                st = core.canon(("capi", cfg["n"], cfg["d"], cfg["fc"], cfg["cont"], cfg["start"], sorted(model.written)))
                part["states"].add(st)
                part["nontrivial"].add(st)
                case = {"universe": "capi", "cfg": dict(cfg), "ops": ops, "seed": seed}
                if p.returncode != 0 or "ERROR: AddressSanitizer" in p.stderr or "runtime error" in p.stderr:
                    part["violations"].append(core.Violation({"class": "capi_driver_failed"}, case,
                                                             {"rc": p.returncode, "stderr": p.stderr[-1500:]}))
                    continue
                if len(res) != len(ops):
                    part["violations"].append(core.Violation({"class": "capi_driver_output"}, case, p.stdout[-500:]))
                    continue
                bad = False
                for (reason, cur), (rc, before, after, hf) in zip(expect, res):
                    if (reason is None) != (rc == 0) or (reason is None and after != cur) or (reason and after != before):
                        part["violations"].append(core.Violation(
                            {"class": "capi_return"}, case,
                            "expected %s cursor %d, got rc=%d index %d->%d" % (reason, cur, rc, before, after)))
                        bad = True
                        break
                if bad:
                    continue
                run = rfrun.Run()
                run.model, run.cfg, run.top, run.chdir = model, cfg, top, os.path.join(top, cfg["ch"])
                reader = drf.DigitalRFReader(top)
                errs, nr = rfrun.oracle_roundtrip(run, reader, "linear")
                errs += rfrun.oracle_layout(run)
                part["outcomes"]["capi blocks=%d" % len(model.runs(cfg=cfg))] += 1
                for key, detail in errs:
                    part["violations"].append(core.Violation(dict(key, via="capi"), case, detail))
                reader.close()
            finally:
                core.rm(top)
    return part


def fp_oracle(run, reader, firsts):
    """read exactly the boundary sample, the one before it, and both"""
    cfg, model = run.cfg, run.model
    out = []
    n = 0
    for f in firsts:
        for (s, e) in ((f, f), (f - 1, f - 1), (f - 1, f), (f, f + 1)):
            got = rf.read_runs(reader, cfg["ch"], s, e)
            n += 1
            err = rf.compare_runs(cfg, got, model.runs(s, e, cfg))
            if err:
                out.append(({"class": "roundtrip_mismatch"}, "read(%d,%d): %s" % (s, e, err)))
            blocks = reader.get_continuous_blocks(s, e, cfg["ch"])
            if [(int(k), int(v)) for k, v in blocks.items()] != [(k, len(v)) for k, v in model.runs(s, e, cfg)]:
                out.append(({"class": "blocks_mismatch"}, "get_continuous_blocks(%d,%d) = %s" % (s, e, dict(blocks))))
    # whole recording, and layout
    lo, hi = min(model.written), max(model.written)
    got = rf.read_runs(reader, cfg["ch"], lo, hi)
    n += 1
    err = rf.compare_runs(cfg, got, model.runs(lo, hi, cfg))
    if err:
        out.append(({"class": "roundtrip_mismatch"}, "read(%d,%d): %s" % (lo, hi, err)))
    out.extend(rfrun.oracle_layout(run))
    return out[:6], n


def classify(run, reader, key, detail):
    """attach the call site when the reader's candidate-file list omits an existing file"""
    if key.get("class") != "roundtrip_mismatch":
        return key
    try:
        import re

        m = re.match(r"read\((\d+),(\d+)\)", detail)
        s, e = int(m.group(1)), int(m.group(2))
        cfg = run.cfg
        props = reader.get_properties(cfg["ch"])
        fl = set(reader._get_file_list(s, e, props["samples_per_second"], cfg["sc"], cfg["fc"]))
        need = {rf.file_relpath(k, cfg) for k in run.model.exposed(cfg) if s <= k <= e}
        if need - fl:
            return dict(key, site="reader_file_list_omits_file")
    except Exception:  # noqa: BLE001
        pass
    return key


# ---------------------------------------------------------------- entry points
def replay(case):
    import digital_rf as drf

    cfg = rf.Cfg(**case["cfg"])
    ops = [tuple(o) for o in case["ops"]]
    top = core.new_scratch()
    out = []
    try:
        if case.get("universe") == "capi":
            model, expect, res, p = run_capi(cfg, ops, case["seed"], top)
            run = rfrun.Run()
            run.model, run.cfg, run.top, run.chdir = model, cfg, top, os.path.join(top, cfg["ch"])
            out.append(("driver", p.returncode, p.stderr[-500:], res, expect))
        else:
            run = rfrun.execute(cfg, ops, case["seed"], top)
            out.extend(run.errors)
        reader = drf.DigitalRFReader(top)
        errs, _ = rfrun.oracle_roundtrip(run, reader, "all", edge_limit=40)
        out.extend(errs)
        out.extend(rfrun.oracle_layout(run))
    finally:
        core.rm(top)
    return out


def main(tier):
    chk = core.Check(
        PID, tier, "model_checking",
        rule=("every history (sequence of rf_write/rf_write_blocks calls from a finite alphabet of lengths and gaps, "
              "depth<=2 full alphabet + depth 3%s reduced alphabet, 2-/3-block layouts) x rate/cadence x storage mode x "
              "start position is executed on the staged writer in lock-step with a big-integer model and read back "
              "over edge-derived ranges; U-fp: every file boundary in a window of consecutive files at realistic "
              "rates; U-type: all scalar types x byte orders x real/complex x subchannels x modes; plus the same "
              "sequences through the C API under ASan/UBSan. A case is distinct/non-trivial by the hash of "
              "(rate, cadence, mode, start, set of written indices).") % ("-4" if tier == "thorough" else ""),
        assumptions=["HDF5 1.10.8 (system) linked into the staged C library; reader uses h5py's bundled HDF5",
                     "sample values are a fixed function of (VERIF_SEED, index, subchannel, component)"],
    )
    stage.activate()
    jobs = layout_jobs(tier) + fp_jobs(tier) + type_jobs(tier) + capi_jobs(tier) + twochan_jobs(tier)
    rot = core.seed() % max(1, len(jobs))
    jobs = jobs[rot:] + jobs[:rot]
    chk.extra["jobs"] = len(jobs)
    for part in core.pmap(run_job, jobs, chunksize=1):
        chk.merge(part)
    return chk.finish()
