"""C14 - listing is sound, complete, ordered and window-exact (exhaustive grid over a tree grammar)."""

import itertools
import os

from .. import core, stage, trees as T

PID = "C14"


import datetime as _dt

OTHER_TZ = _dt.timezone(_dt.timedelta(hours=5, minutes=30))


def triples(tier):
    base = ["E", "2", "M"]
    out = [tuple(t) for t in itertools.product(base, repeat=3)]
    out += [("1", "E", "3"), ("P", "2", "E"), ("J", "2", "2"), ("E", "E", "L"), ("L", "E", "1"), ("3", "-", "1"),
            ("-", "2", "-"), ("E", "-", "2"), ("2", "J", "L"), ("L", "L", "L"), ("E", "E", "E"), ("-", "-", "-")]
    if tier != "quick":
        out = [tuple(t) for t in itertools.product(["E", "1", "2", "M", "P", "J", "L", "-"], repeat=3)]
    return sorted(set(out))


def tree_specs(tier):
    specs = []
    tr = triples(tier)
    for kind in T.KINDS:
        for t in (tr if kind != "plain" else tr[::9]):
            specs.append([("chA", kind, t)])
    # two channel slots
    pair_tr = [("2", "E", "M"), ("E", "2", "L")]
    for ka in T.KINDS:
        for kb in T.KINDS:
            specs.append([("chA", ka, pair_tr[0]), ("chB", kb, pair_tr[1])])
    # RF channel with nested metadata channel
    for t in (tr[::3] if tier == "quick" else tr[::2]):
        specs.append([("chA", "drf", ("2", "M", "E")), ("chA/metadata", "dmd", t)])
        specs.append([("chA", "drf", t), ("chA/metadata", "dmd", ("E", "2", "L"))])
    return specs


def windows(per_channel_times):
    """(start, end) pairs from the critical times of the tree"""
    ts = sorted(per_channel_times)
    if not ts:
        return [(None, None)]
    crit = [ts[0] - 5000, ts[-1] + 5000]
    for t in ts:
        crit += [t - 1, t, t + 1]
    crit = sorted(set(crit))
    out = [(None, None)]
    for s in [None] + crit:
        for e in [None] + crit:
            if s is not None and e is not None and e < s:
                continue
            out.append((s, e))
    # bounds that are exactly the epoch (a zero offset is a bound like any other)
    out += [(None, 0), (0, None), (0, 0), (0, ts[len(ts) // 2])]
    return out


def run_tree(args):
    import digital_rf as drf
    from digital_rf import list_drf

    spec, tier = args
    part = core.new_part()
    scratch = top = core.new_scratch()
    if len(repr(spec)) % 3 == 1:
        # the data set lives under a directory whose own name looks like a time-stamped subdirectory
        top = os.path.join(scratch, "2014-03-09T12-00-00")
        os.makedirs(top)
    elif len(repr(spec)) % 3 == 2:
        # ... or whose name contains characters that are special in glob patterns and regular expressions
        top = os.path.join(scratch, "campaign[2014] (a+b)", "run[3]*")
        os.makedirs(top)
    case = {"spec": spec}

    def bad(key, detail, **extra):
        if len(part["violations"]) < 10:
            part["violations"].append(core.Violation(key, dict(case, **extra), detail))

    try:
        T.make_tree(top, spec)
        times = set()
        for root, dirs, files in os.walk(top):
            for f in files:
                t, k = T.file_time_ms(f)
                if t is not None and T.RE_SUBDIR.match(os.path.basename(root)):
                    times.add(t)
        wins = windows(times)
        paths = [top] + [os.path.join(top, s[0]) for s in spec]
        # a timestamped subdirectory as the listing path
        sub_paths = []
        for s in spec[:1]:
            _, dirs = T.channel_files(s[1], s[2])
            sub_paths += [os.path.join(top, s[0], d) for d in dirs[:2]]
            sub_paths.append(os.path.join(top, s[0], T.subdir_name(T.T0) + ".bak"))

        def one(path, kw, label):
            part["evaluations"] += 1
            part["transitions"] += 1
            okw = {k: v for k, v in kw.items() if k != "reverse"}
            okw["starttime"] = T.from_ms(kw["starttime"]) if kw.get("starttime") is not None else None
            okw["endtime"] = T.from_ms(kw["endtime"]) if kw.get("endtime") is not None else None
            ckw = dict(okw, reverse=kw.get("reverse", False))
            # the same instants expressed as naive-UTC or as aware datetimes in another zone
            form = (part["evaluations"] + len(label)) % 3
            for key_ in ("starttime", "endtime"):
                if ckw[key_] is not None:
                    if form == 1:
                        ckw[key_] = ckw[key_].replace(tzinfo=None)
                    elif form == 2:
                        ckw[key_] = ckw[key_].astimezone(OTHER_TZ)
            try:
                got = drf.lsdrf(path, **ckw)
            except Exception as e:  # noqa: BLE001
                k = {"class": "listing_raised", "exc": type(e).__name__}
                bad(k, "lsdrf(%s, %s) raised %r" % (os.path.relpath(path, top), kw, e), path=os.path.relpath(path, top), kw=kw)
                return None
            req, alw, per = T.expected_listing(top, path, **okw)
            res = T.check_listing(got, req, alw, per, reverse=kw.get("reverse", False))
            part["outcomes"]["n=%d" % min(len(got), 9)] += 1
            if res:
                k = {"class": "listing_" + res[0]}
                if kw.get("reverse"):
                    k["reverse"] = True
                bad(k, "lsdrf(%s, %s): %s" % (os.path.relpath(path, top), kw, res[1]), path=os.path.relpath(path, top), kw=kw)
            return set(got)

        # (a) full flag product, no window + two windows
        tsorted = sorted(times)
        some_w = [(None, None)]
        if tsorted:
            some_w += [(tsorted[len(tsorted) // 2], None)]
            if tsorted[0] + 1 <= tsorted[-1] - 1:
                some_w.append((tsorted[0] + 1, tsorted[-1] - 1))
        for path in paths:
            for idrf, idmd in itertools.product((True, False), repeat=2):
                for pdrf, pdmd in itertools.product((None, True, False), repeat=2):
                    for rec in (True, False):
                        for s, e in some_w:
                            if (s, e) != (None, None) and not (idrf or idmd):
                                continue
                            sets = []
                            for rev in (False, True):
                                kw = dict(include_drf=idrf, include_dmd=idmd, include_drf_properties=pdrf,
                                          include_dmd_properties=pdmd, recursive=rec, reverse=rev, starttime=s, endtime=e)
                                sets.append(one(path, kw, "flags"))
                            if sets[0] is not None and sets[1] is not None and sets[0] != sets[1]:
                                bad({"class": "reverse_changes_set"}, "path %s flags %s window %s: forward-only %s reverse-only %s" % (
                                    os.path.relpath(path, top), (idrf, idmd, pdrf, pdmd, rec), (s, e),
                                    sorted(sets[0] - sets[1])[:2], sorted(sets[1] - sets[0])[:2]),
                                    path=os.path.relpath(path, top), window=[s, e])
        # (b) all windows x kind selections x reverse
        for path in paths[:2] + sub_paths:
            for s, e in wins:
                for idrf, idmd in ((True, True), (True, False), (False, True)):
                    sets = []
                    for rev in (False, True):
                        kw = dict(include_drf=idrf, include_dmd=idmd, recursive=True, reverse=rev, starttime=s, endtime=e)
                        sets.append(one(path, kw, "window"))
                    if sets[0] is not None and sets[1] is not None and sets[0] != sets[1]:
                        bad({"class": "reverse_changes_set"}, "path %s kinds %s window %s: forward-only %s reverse-only %s" % (
                            os.path.relpath(path, top), (idrf, idmd), (s, e), sorted(sets[0] - sets[1])[:2], sorted(sets[1] - sets[0])[:2]),
                            path=os.path.relpath(path, top), window=[s, e])
        # (c) vanishing subdirectory: os.listdir fails for one subdirectory during the listing
        real_listdir = os.listdir
        for s in spec:
            _, dirs = T.channel_files(s[1], s[2])
            for d in dirs:
                victim = os.path.join(top, s[0], d)

                def fake(p=".", _v=victim):
                    if os.path.abspath(p) == _v:
                        raise FileNotFoundError(2, "vanished", p)
                    return real_listdir(p)

                for (ws, we) in some_w:
                    for rev in (False, True):
                        kw = dict(reverse=rev, starttime=T.from_ms(ws) if ws else None, endtime=T.from_ms(we) if we else None)
                        os.listdir = fake
                        try:
                            got = drf.lsdrf(top, **kw)
                            err = None
                        except Exception as e:  # noqa: BLE001
                            err = e
                        finally:
                            os.listdir = real_listdir
                        part["evaluations"] += 1
                        if err is not None:
                            bad({"class": "listing_raised_on_vanished_subdir", "exc": type(err).__name__},
                                "lsdrf with %s vanished (window %s, reverse %s) raised %r" % (os.path.relpath(victim, top), (ws, we), rev, err),
                                victim=os.path.relpath(victim, top), window=[ws, we])
                            continue
                        # the statement only demands that the listing does not fail; what is listed must
                        # still be selectable and complete outside the vanished directory (the forward-fill
                        # extra is not demanded when the directory it hinges on disappears mid-listing)
                        req, alw, per = T.expected_listing(top, top, starttime=kw["starttime"], endtime=kw["endtime"], skip_dirs=(victim,))
                        req0, alw0, _ = T.expected_listing(top, top, starttime=kw["starttime"], endtime=kw["endtime"])
                        per = {r: info[:2] for r, info in per.items()}
                        res = T.check_listing(got, req, alw | alw0 | req0, per, reverse=rev)
                        if res:
                            bad({"class": "listing_vanished_" + res[0]}, "lsdrf with %s vanished: %s" % (os.path.relpath(victim, top), res[1]),
                                victim=os.path.relpath(victim, top), window=[ws, we])
        part["traces"] += 1
        part["nontrivial"].add(core.canon(spec))
        part["states"].add(core.canon(spec))
        if not part["samples"]:
            part["samples"].append({"spec": spec, "windows": len(wins), "files": sorted(T.scan(top).keys())[:6]})
    finally:
        core.rm(scratch)
    return part


def replay(case):
    part = run_tree(([tuple(s[:2]) + (tuple(s[2]),) for s in case["spec"]], "thorough"))
    return [(v["key"], v["detail"]) for v in part["violations"]]


def main(tier):
    chk = core.Check(
        PID, tier, "exploration",
        rule=("trees from a bounded grammar: 1-2 channel slots of kind {RF, metadata, legacy metadata.h5, plain dir}, RF channel "
              "with nested metadata channel; three subdirectory slots each absent or one of 8 content patterns (empty, 1-3 valid "
              "files, tmp./wrong-extension/other-kind files, two prefixes with one timestamp) plus stray files and a malformed "
              "subdirectory name; per tree: full product include_drf x include_dmd x drf/dmd property flags {None,T,F} x "
              "recursive x reverse (x 3 windows) on every channel path, ALL (start,end) pairs over the critical times {each "
              "file time, +-1 ms, before all, after all, None} x 3 kind selections x reverse on the top, first channel and "
              "subdirectory paths, and a vanishing-subdirectory fault for each subdirectory. Oracle: set algebra on the tree."),
        assumptions=["the forward-fill file is required only in pure metadata listings and only when no file sits exactly at start; in legacy metadata.h5 directories it is allowed, not required",
                     "trees are time-consistent (a file lies in the subdirectory of its own timestamp)"],
    )
    stage.activate()
    specs = tree_specs(tier)
    rot = core.seed() % len(specs)
    specs = specs[rot:] + specs[:rot]
    for part in core.pmap(run_tree, [(s, tier) for s in specs], chunksize=1):
        chk.merge(part)
    chk.extra["trees"] = len(specs)
    return chk.finish()
