"""C02 - kill-safe publication of data files (fault enumeration over crash points)."""

import os

from .. import core, crash, fsctl, rf, stage, universe as U

PID = "C02"


def histories(tier):
    layouts = {
        "gap+rollover": [("open", {}), ("w", 0, 5), ("w", 7, 6), ("close",)],
        "blocks": [("open", {}), ("wb", [0, 5, 13], [0, 2, 6], 9), ("close",)],
        "append_same_file": [("open", {}), ("w", 0, 2), ("w", 2, 1), ("w", 3, 9), ("close",)],
        # a call that is refused (write into the past) in the middle; the recorder keeps the error object, goes on and closes
        "refused_call_midway": [("open", {}), ("w", 0, 5), ("w", 2, 2), ("w", 7, 6), ("close",)],
        # ... and a call refused by the C library (a restarted session entering a finalized period)
        "resumed_session_refused_call": [("open", {}), ("w", 0, 5), ("close",), ("open", {"uuid": "s2"}), ("w", 0, 2), ("w", 40, 2), ("close",)],
    }
    if tier != "quick":
        layouts["two_sessions"] = [("open", {}), ("w", 0, 5), ("close",), ("open", {"uuid": "s2", "start_delta": 30}), ("w", 0, 6), ("close",)]
        layouts["single_samples"] = [("open", {}), ("w", 0, 1), ("w", 3, 1), ("w", 4, 1), ("close",)]
    modes = ["gapped", "cont", "cont+cks"] + ([] if tier == "quick" else ["cont+gz1", "gapped+gz9+cks"])
    rates = [(10, 3, 1000, 2)] + ([] if tier == "quick" else [(2, 3, 2000, 4), (1000, 1, 3, 3)])
    out = []
    for (n, d, fc, sc) in rates:
        starts = U.start_positions(n, d, fc, sc, U.EPOCHS[1:2])
        for mi, mode in enumerate(modes):
            for li, (lname, ops) in enumerate(layouts.items()):
                k0, label = starts[(mi + li) % len(starts)]
                cfg = rf.Cfg(n=n, d=d, fc=fc, sc=sc, start=k0, **U.MODES[mode])
                out.append((dict(cfg), ops, "%d/%d %s %s %s" % (n, d, mode, lname, label)))
    return out


def tier_is_thorough():
    return os.environ.get("VERIF_TIER") == "thorough"


def run_history(item):
    cfgd, ops, label = item
    seed = core.seed()
    part = core.new_part()
    cfg = rf.Cfg(**cfgd)
    host = fsctl.host()
    case = {"cfg": cfgd, "ops": ops, "seed": seed, "label": label}

    def bad(key, detail, **extra):
        if len(part["violations"]) < 12:
            part["violations"].append(core.Violation(key, dict(case, **extra), detail))

    allowed_by_call, model = crash.model_prefixes(cfg, ops)
    final = dict(model.written)
    # ---- (A) pause before every operation: the tree at that instant is what a kill would leave
    top = core.new_scratch()
    digests = {}
    try:
        obs = crash.Observer(top, cfg)

        def on_pause(when, rec, oplist, calls):
            i = rec["i"]
            allowed = allowed_by_call[min(len(calls), len(allowed_by_call) - 1)]
            errs, _ = obs.observe(allowed, "before op %d (%s %s)" % (i, rec["kind"], os.path.basename(rec["path"])))
            part["evaluations"] += 1
            part["transitions"] += 1
            part["states"].add(core.canon((label, tuple(sorted(obs.first_sha)), i)))
            for key, detail in errs:
                bad(key, detail, point=i)
            digests[i] = tuple((f, crash.sha(os.path.join(top, f))) for f in crash.tree_files(top))

        r = host.run(top, os.path.join(top, cfg["ch"]), cfg, ops, seed, fsctl.plan(pause_before=fsctl.ALL_KINDS_MASK), on_pause)
        nops = len(r["ops"])
        m_chk = rf.Model()
        expect_exc = set()
        cur_chk = cfg
        for ci, op in enumerate(ops):
            if op[0] == "open":
                over_ = dict(op[1]) if len(op) > 1 else {}
                if "start_delta" in over_:
                    over_["start"] = cur_chk["start"] + over_.pop("start_delta")
                cur_chk = rf.Cfg(**{**cur_chk, **over_})
                m_chk.open_session(cur_chk)
            elif op[0] in ("w", "wb"):
                g_, b_, l_ = rf.op_blocks(op, m_chk.cursor)
                if m_chk.check_blocks(g_, b_, l_) is None:
                    if m_chk.apply_write(g_, b_, [b""] * l_)[1] is not None:
                        expect_exc.add(ci)  # enters a period finalized by the earlier session
                else:
                    expect_exc.add(ci)  # the history contains this refused call on purpose
            elif op[0] == "close":
                m_chk.close_session()
        if r["status"] != 0 or any((c["status"] != "ok") != (c["i"] in expect_exc) for c in r["calls"]):
            bad({"class": "unfaulted_run_failed"}, "status %r calls %r" % (r["status"], r["calls"]))
        errs, _ = obs.observe(final, "after close", expect_all=final)
        part["evaluations"] += 1
        for key, detail in errs:
            bad(key, detail, point="end")
        write_ops = [o["i"] for o in r["ops"] if o["kind"] == "write" and o["len"] >= 2]
        part["outcomes"]["ops=%d" % (nops // 10 * 10)] += 1
    finally:
        core.rm(top)
    # ---- (B) torn writes: half of the bytes of write i reach the file, then the process dies
    for i in write_ops:
        top = core.new_scratch()
        try:
            obs = crash.Observer(top, cfg)
            r2 = host.run(top, os.path.join(top, cfg["ch"]), cfg, ops, seed, fsctl.plan(kill_at=i, torn=1))
            allowed = allowed_by_call[min(len(r2["calls"]), len(allowed_by_call) - 1)]
            errs, _ = obs.observe(allowed, "torn write at op %d" % i)
            part["evaluations"] += 1
            part["transitions"] += 1
            part["states"].add(core.canon((label, "torn", i)))
            for key, detail in errs:
                bad(dict(key, torn=True), detail, point=i, torn=True)
            if r2["status"] != 137:
                bad({"class": "harness_kill_not_delivered"}, "status %r at torn %d" % (r2["status"], i))
        finally:
            core.rm(top)
    # ---- (C) equivalence of pause-and-inspect with a real kill at every boundary (first history of each mode)
    if item[3:] or label.endswith("#killcheck"):
        pass
    if "gap+rollover" in label:
        for i in range(nops + 1):
            top2 = core.new_scratch()
            try:
                r3 = host.run(top2, os.path.join(top2, cfg["ch"]), cfg, ops, seed, fsctl.plan(kill_at=i))
                d3 = tuple((f, crash.sha(os.path.join(top2, f))) for f in crash.tree_files(top2))
                part["evaluations"] += 1
                if i < nops and digests.get(i) != d3:
                    bad({"class": "harness_pause_kill_mismatch"}, "tree at pause %d differs from tree after kill at %d" % (i, i), point=i)
            finally:
                core.rm(top2)
    # ---- (D) kill, then restart: a new recorder process opens the same channel after the crash and records
    #      again from the same start (same file periods); whatever it does with leftovers of the dead
    #      session, the invariants on final-named files must still hold afterwards
    if ops[0][0] == "open" and not any(o[0] == "open" for o in ops[1:]):
        ops2_variants = [[("open", {"uuid": "restarted-session"}), ("w", 0, 3), ("close",)],
                         [("open", {"uuid": "restarted-session"}), ("w", 0, 3), ("w", 40, 2), ("close",)],
                         # the restarted recorder carries on with the block interface after its first write
                         [("open", {"uuid": "restarted-session"}), ("w", 0, 3), ("wb", [40, 46], [0, 2], 4), ("wb", [60], [0], 3), ("close",)]]
        m2 = rf.Model()
        m2.open_session(rf.Cfg(**dict(cfg, uuid="restarted-session")))
        m2w = {}
        per_call = {}  # (variant, op index) -> samples that call writes if it is accepted
        for vi, ops2_ in enumerate(ops2_variants):
            mv = rf.Model()
            mv.open_session(rf.Cfg(**dict(cfg, uuid="restarted-session")))
            for oi, op in enumerate(ops2_):
                if op[0] not in ("w", "wb"):
                    continue
                g, b, length = rf.op_blocks(op, mv.cursor)
                before = set(mv.written)
                mv.apply_write(g, b, rf.row_bytes(rf.values_for(cfg, seed, g, b, length)))
                per_call[(vi, oi)] = {k: mv.written[k] for k in set(mv.written) - before}
            m2w.update(mv.written)
        m2.written.update(m2w)
        step = 1 if tier_is_thorough() else 2
        for i, vi, ops2 in [(i_, v_, o_) for i_ in range(0, nops + 1, step) for v_, o_ in enumerate(ops2_variants)]:
            top3 = core.new_scratch()
            try:
                rk = host.run(top3, os.path.join(top3, cfg["ch"]), cfg, ops, seed, fsctl.plan(kill_at=i))
                obs = crash.Observer(top3, cfg)
                # record what is published at the moment of the kill: it must still be there, unchanged, afterwards
                obs.observe(allowed_by_call[min(len(rk["calls"]), len(allowed_by_call) - 1)], "right after kill at op %d" % i, check_reader=False)
                r4 = host.run(top3, os.path.join(top3, cfg["ch"]), cfg, ops2, seed, fsctl.plan())
                allowed = dict(final)
                allowed.update(m2.written)
                # (a re-recorded continuous file legitimately holds fill where only the dead session had data)
                errs, union4 = obs.observe(allowed, "after kill at op %d and a restarted session" % i, fill_ok=True)
                # what the restarted session's calls accepted (returned normally) must be readable once it has
                # closed cleanly and exited
                if r4["status"] == 0 and r4["calls"] and r4["calls"][-1]["status"] == "ok":
                    for c in r4["calls"]:
                        want = per_call.get((vi, c["i"]))
                        if want and c["status"] == "ok":
                            miss = sorted(k for k in want if union4.get(k) != want[k])
                            if miss:
                                errs.append(({"class": "restarted_session_accepted_write_not_readable_after_close", "call": ops2[c["i"]][0]},
                                             "after kill at op %d: restarted session's call %d %r returned normally and the session closed "
                                             "cleanly, but samples %s are not readable" % (i, c["i"], ops2[c["i"]], miss[:4])))
                                break
                part["evaluations"] += 1
                part["transitions"] += 1
                part["states"].add(core.canon((label, "restart", i)))
                part["outcomes"]["restart calls " + "".join("k" if c["status"] == "ok" else "x" for c in r4["calls"])] += 1
                for key, detail in errs:
                    bad(dict(key, restart=True), detail, point=i, restart=True)
            finally:
                core.rm(top3)
    part["traces"] += 1
    part["nontrivial"].add(core.canon((cfgd, ops)))
    if not part["samples"]:
        part["samples"].append({"label": label, "ops": ops, "fs_operations": nops, "torn_write_points": len(write_ops)})
    return part


def replay(case):
    os.environ["VERIF_SEED"] = str(case.get("seed", 0))
    item = (case["cfg"], [tuple(o) for o in case["ops"]], case.get("label", "replay gap+rollover"))
    part = run_close_in_process(item) if case.get("in_process") else run_history(item)
    return [(v["key"], v["detail"]) for v in part["violations"]]


def run_close_in_process(item):
    """The clean-close clause judged while the recording process is still alive: after close() has returned -
    whatever the recorder still holds (it keeps the error objects of refused calls) - no tmp. file remains and
    every accepted sample is readable."""
    import digital_rf as drf
    from .. import rfrun

    cfgd, ops, label = item
    part = core.new_part()
    cfg = rf.Cfg(**cfgd)
    top = core.new_scratch()
    case = {"cfg": cfgd, "ops": ops, "seed": core.seed(), "label": label, "in_process": True}
    try:
        run = rfrun.execute(cfg, [tuple(o) for o in ops[1:]], core.seed(), top)  # (execute opens the first session itself)
        left = [f for f in crash.tree_files(top) if os.path.basename(f).startswith("tmp.")]
        part["evaluations"] += 1
        if left:
            part["violations"].append(core.Violation({"class": "tmp_left_after_close", "where": "recording_process_still_alive"}, case,
                                                     "close() has returned (error objects of refused calls still held): %s" % left))
        reader = drf.DigitalRFReader(top)
        errs, _ = rfrun.oracle_roundtrip(run, reader, "linear", edge_limit=12)
        reader.close()
        for key, detail in errs[:2]:
            part["violations"].append(core.Violation(dict(key, where="recording_process_still_alive"), case, detail))
        part["outcomes"]["close_in_process refused=%d" % sum(1 for r_ in run.records if r_.get("status") == "exc")] += 1
        part["states"].add(core.canon(("inproc", label)))
        part["traces"] += 1
    finally:
        core.rm(top)
    return part


def main(tier):
    chk = core.Check(
        PID, tier, "fault_enumeration",
        rule=("histories (gap + rollover inside a call, multi-block call, multi-call append to one file%s) x storage modes x "
              "rates, driven through the public Python writer from channel creation to close() in a subprocess under the "
              "LD_PRELOAD shim; the process is paused before EVERY intercepted file-system operation (open/create, write, "
              "truncate, close, rename, mkdir, unlink) and the tree inspected (raw h5py on every final-named file, SHA-256 "
              "persistence, lsdrf, DigitalRFReader bounds + full read == union of finalized files); every write is also torn "
              "(half the bytes, then _exit); for one history per mode the process is really killed at every boundary and the "
              "tree compared with the paused one; the histories containing a refused call are also run in-process and judged right after close() returns; and after a real kill at every (quick: every other) boundary a new recorder process re-opens the channel and records the same periods again (kill-then-restart histories). A point is non-trivial/distinct per (history, operation index, set of final files).")
        % ("" if tier == "quick" else ", two sessions, single-sample calls"),
        assumptions=["crash = death of the process without loss of the OS page cache (the on-disk state after a kill at point i is what another process sees at point i)",
                     "operation stream of the HDF5 actually linked (system 1.10.8)"],
    )
    stage.activate()
    hs = histories(tier)
    rot = core.seed() % len(hs)
    hs = hs[rot:] + hs[:rot]
    for part in core.pmap(run_history, hs, chunksize=1, isolate=False):
        chk.merge(part)
    for part in core.pmap(run_close_in_process, [h for h in hs if "refused" in h[2]], chunksize=1):
        chk.merge(part)
    chk.nontrivial = chk.state_hashes
    return chk.finish()
