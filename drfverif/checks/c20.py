"""C20 - live metadata visibility and non-destructive reading (call-granular interleavings)."""

import hashlib
import itertools
import os

import numpy as np

from .. import core, md, rf, stage

PID = "C20"

N, D = 10, 3
MD_FC, MD_SC = 2, 10
RF_FC, RF_SC = 1000, 2
T0 = 1394333990  # 2014-03-09T02:59:50Z: the third write lands in the 03-00-00 subdirectory (local DST gap under DRFVERIF_TZ)

FIXED_LO = md.first_of_ts(T0, N, D)
FIXED_HI = md.first_of_ts(T0 + 600, N, D)

WRITES = ("MW_same", "MW_next", "MW_two", "RW")
OPS = WRITES + ("NEW_MD", "NEW_RF")


def histories(maxlen, maxwrites=3):
    out = []
    for L in range(1, maxlen + 1):
        for seq in itertools.product(OPS, repeat=L):
            if sum(1 for o in seq if o in WRITES) > maxwrites:
                continue
            if not any(o.startswith("MW") for o in seq):
                continue
            if sum(1 for o in seq if o.startswith("NEW")) > 3:
                continue
            out.append(list(seq))
    return out


def snapshot(top):
    out = []
    for root, dirs, files in os.walk(top):
        dirs.sort()
        st = os.stat(root)
        out.append((os.path.relpath(root, top), "dir", st.st_mode))
        for f in sorted(files):
            p = os.path.join(root, f)
            st = os.stat(p)
            with open(p, "rb") as fh:
                h = hashlib.sha256(fh.read()).hexdigest()
            out.append((os.path.relpath(p, top), st.st_size, h, st.st_mode))
    return out


def run_history(seq):
    import digital_rf as drf

    part = core.new_part()
    seed = core.seed()
    top = core.new_scratch()
    case = {"history": seq, "seed": seed}

    def bad(key, detail, **extra):
        if len(part["violations"]) < 8:
            part["violations"].append(core.Violation(key, dict(case, **extra), detail))

    try:
        # an unrelated data set with a channel of the same name, read first in this very process
        other = os.path.join(top, "_other_dataset")
        och = os.path.join(other, "ch0")
        os.makedirs(os.path.join(och, "metadata"))
        ocfg = rf.Cfg(n=N, d=D, fc=RF_FC, sc=RF_SC, start=md.first_of_ts(T0 - 500, N, D), cont=False)
        ow = rf.open_writer(drf, och, ocfg)
        ow.rf_write(rf.make_values(ocfg, seed, ocfg["start"], 4))
        ow.close()
        omw = drf.DigitalMetadataWriter(os.path.join(och, "metadata"), MD_SC, MD_FC, N, D, "metadata")
        omw.write(ocfg["start"] + 1, {"v": -7, "txt": "other data set"})
        orr = drf.DigitalRFReader(other)
        orr.read_metadata(ocfg["start"], ocfg["start"] + 3, "ch0")
        top = os.path.join(top, "dataset")
        chdir = os.path.join(top, "ch0")
        mdir = os.path.join(chdir, "metadata")
        os.makedirs(mdir)
        cfg = rf.Cfg(n=N, d=D, fc=RF_FC, sc=RF_SC, start=md.first_of_ts(T0 + 6, N, D), cont=False)
        rfw = rf.open_writer(drf, chdir, cfg)
        rfw.rf_write(rf.make_values(cfg, seed, cfg["start"], 5))  # first files exist, one still open as tmp
        # a second top-level directory holding some other channel only
        second_top = os.path.join(os.path.dirname(top), "second_disk")
        os.makedirs(os.path.join(second_top, "chZ"))
        zw = rf.open_writer(drf, os.path.join(second_top, "chZ"), rf.Cfg(**dict(cfg, uuid="other-channel")))
        zw.rf_write(rf.make_values(cfg, seed, cfg["start"], 3))
        zw.close()
        mdw = drf.DigitalMetadataWriter(mdir, MD_SC, MD_FC, N, D, "metadata")
        written = {}
        next_md = md.first_of_ts(T0 + 7, N, D) + 1  # 7 s into a 10 s subdirectory
        readers = []  # (kind, obj, created_at_step)

        def query_pass(kind, obj, step, label):
            # make every metadata file look older than its file cadence (the reader's clean-up of
            # unreadable files only considers files that are not new)
            for r_, d_, fs_ in os.walk(mdir):
                for f_ in fs_:
                    os.utime(os.path.join(r_, f_), (1000000000, 1000000000))
            before = snapshot(top)
            res = {}
            try:
                if kind == "md":
                    try:
                        res["bounds"] = tuple(int(x) for x in obj.get_bounds())
                    except IOError:
                        res["bounds"] = None
                    # the same fixed window on every pass (a polling reader): must follow the writes
                    res["fixed"] = [int(k) for k in obj.read(FIXED_LO, FIXED_HI)] if res["bounds"] else []
                    if written:
                        lo, hi = min(written), max(written)
                        res["range"] = [int(k) for k in obj.read(lo, hi)]
                        res["last"] = [int(k) for k in obj.read(hi, hi)]
                        res["latest"] = [int(k) for k in obj.read_latest()]
                        res["latest_val"] = [v.get("v") for v in obj.read_latest().values()]
                        # a column that no sample has: the reader may raise or return nothing, but it
                        # must not touch the (by now old) files
                        try:
                            obj.read(lo, hi, columns="no_such_field")
                        except (KeyError, IOError):
                            pass
                        try:
                            obj.read(lo, hi, columns=["v", "no_such_field"])
                        except (KeyError, IOError):
                            pass
                else:
                    res["rf_bounds"] = obj.get_bounds("ch0")
                    b = res["rf_bounds"]
                    if b[0] is not None:
                        obj.read(b[0], b[1], "ch0")
                    # metadata queries are issued even before the first metadata write (empty channel)
                    mfix = obj.read_metadata(FIXED_LO, FIXED_HI, "ch0", method=None)
                    res["fixed"] = [int(k) for k in mfix if "v" in mfix[k]]
                    if written:
                        lo, hi = min(written), max(written)
                        mdd = obj.read_metadata(lo, hi, "ch0", method=None)
                        res["range"] = [int(k) for k in mdd if "v" in mdd[k]]
                        mdl = obj.read_metadata(hi, hi, "ch0")
                        res["latest"] = [int(k) for k in mdl if "v" in mdl[k]]
                    drf.lsdrf(top)
                    drf.lsdrf(chdir, include_dmd=False)
            except Exception as e:  # noqa: BLE001
                bad({"class": "reader_raised", "reader": kind, "exc": type(e).__name__},
                    "step %d %s: %s reader raised %r" % (step, label, kind, e), step=step)
                return None
            after = snapshot(top)
            if after != before:
                diff = [x for x in after if x not in before] + [x for x in before if x not in after]
                bad({"class": "reading_changed_tree", "reader": kind}, "step %d: tree changed by read-only calls: %s" % (step, diff[:4]), step=step)
            part["evaluations"] += 1
            return res

        for step, op in enumerate(seq):
            part["transitions"] += 1
            if op.startswith("MW"):
                if op == "MW_same" or not written:
                    k = next_md
                elif op == "MW_next":
                    t = md.file_ts(max(written), N, D, MD_FC) + MD_FC
                    k = md.first_of_ts(t, N, D)
                else:
                    t = md.file_ts(max(written), N, D, MD_FC) + 2 * MD_FC
                    k = md.first_of_ts(t, N, D) + 1
                if written and k <= max(written):
                    k = max(written) + 1
                mdw.write(k, {"v": int(k % 100000), "txt": "t%d" % k})
                written[k] = int(k % 100000)
                next_md = k + 1
            elif op == "RW":
                rfw.rf_write(rf.make_values(cfg, seed, cfg["start"] + rfw.get_next_available_sample(), 4))
            elif op == "NEW_MD":
                before = snapshot(top)
                readers.append(("md", drf.DigitalMetadataReader(mdir), step))
                if snapshot(top) != before:
                    bad({"class": "reading_changed_tree", "reader": "md_constructor"}, "step %d" % step, step=step)
            elif op == "NEW_RF":
                before = snapshot(top)
                # opened through a relative path; the process changes its working directory afterwards
                cwd_ = os.getcwd()
                os.chdir(os.path.dirname(top))
                try:
                    readers.append(("rf", drf.DigitalRFReader(os.path.basename(top)), step))
                finally:
                    os.chdir(cwd_)
                if snapshot(top) != before:
                    bad({"class": "reading_changed_tree", "reader": "rf_constructor"}, "step %d" % step, step=step)
            # a brand-new reader of each kind after every call, plus every live one
            # (the last one: one reader over two top-level directories, the channel's metadata not being under the first)
            live = list(readers) + [("md", drf.DigitalMetadataReader(mdir), "fresh"), ("rf", drf.DigitalRFReader(top), "fresh"),
                                    ("rf", drf.DigitalRFReader([second_top, top]), "fresh")]
            for kind, obj, born in live:
                res = query_pass(kind, obj, step, "%s born %s" % (kind, born))
                if res is None or not written:
                    continue
                lo, hi = min(written), max(written)
                part["outcomes"]["%s:%s" % (kind, "old" if born != "fresh" else "fresh")] += 1
                if kind == "md":
                    if res["bounds"] != (lo, hi):
                        bad({"class": "bounds_after_write", "reader_age": "old" if born != "fresh" else "fresh"},
                            "step %d (%s): md reader born %s get_bounds %r, written %s" % (step, op, born, res["bounds"], sorted(written)), step=step)
                    if res["latest_val"] != [written[hi]]:
                        bad({"class": "latest_value"}, "step %d: read_latest value %r" % (step, res["latest_val"]), step=step)
                if res.get("fixed") != sorted(written):
                    bad({"class": "fixed_window_after_write", "reader": kind, "reader_age": "old" if born != "fresh" else "fresh"},
                        "step %d (%s): %s reader born %s read of the fixed window returned %s, written %s" % (step, op, kind, born, res.get("fixed"), sorted(written)), step=step)
                if res["range"] != sorted(written):
                    bad({"class": "range_after_write", "reader": kind, "reader_age": "old" if born != "fresh" else "fresh"},
                        "step %d (%s): %s reader born %s read(%d,%d) keys %s, written %s" % (step, op, kind, born, lo, hi, res["range"], sorted(written)), step=step)
                if res["latest"] != [hi]:
                    bad({"class": "latest_after_write", "reader": kind, "reader_age": "old" if born != "fresh" else "fresh"},
                        "step %d (%s): %s reader born %s latest %s, highest index %d" % (step, op, kind, born, res["latest"], hi), step=step)
        rfw.close()
        # ---- a later writer session on the same metadata channel (same parameters; then with another file-name
        #      prefix): whatever session is accepted, a write that returns is visible to earlier and new readers
        if written:
            for sess, prefix in (("same_parameters", "metadata"), ("other_file_name", "meta2")):
                try:
                    mdw2 = drf.DigitalMetadataWriter(mdir, MD_SC, MD_FC, N, D, prefix)
                except Exception:  # noqa: BLE001
                    if sess == "same_parameters":
                        bad({"class": "resumed_metadata_session_refused"}, "a second writer session with identical parameters was refused")
                    part["outcomes"]["session %s refused" % sess] += 1
                    continue
                part["outcomes"]["session %s accepted" % sess] += 1
                k = max(written) + 1 + (7 if sess == "other_file_name" else 0)
                mdw2.write(k, {"v": int(k % 100000), "txt": "t%d" % k})
                written[k] = int(k % 100000)
                part["transitions"] += 1
                for kind, obj, born in list(readers) + [("md", drf.DigitalMetadataReader(mdir), "fresh"), ("rf", drf.DigitalRFReader(top), "fresh")]:
                    res = query_pass(kind, obj, len(seq), "%s born %s after a %s session" % (kind, born, sess))
                    if res is None:
                        continue
                    if kind == "md" and res["bounds"] != (min(written), max(written)):
                        bad({"class": "bounds_after_write", "session": sess}, "after a write by a later session (%s): md reader born %s get_bounds %r, written %s" % (
                            sess, born, res["bounds"], sorted(written)))
                    if res["range"] != sorted(written) or res["latest"] != [max(written)]:
                        bad({"class": "range_after_write", "reader": kind, "session": sess}, "after a write by a later session (%s): %s reader born %s range %s latest %s, written %s" % (
                            sess, kind, born, res["range"], res["latest"], sorted(written)))
        # ---- a back-filled sample: the writer accepts an index below everything written so far (it lands in the file
        #      that is currently the oldest); once that call returns, earlier readers and new ones include it
        if written:
            k = min(written) - 1
            try:
                mdw.write(k, {"v": int(k % 100000), "txt": "t%d" % k})
                ok_ = True
            except Exception:  # noqa: BLE001
                ok_ = False  # a writer that refuses the call has written nothing (checked by the passes below)
            if ok_:
                written[k] = int(k % 100000)
            part["transitions"] += 1
            part["outcomes"]["backfill %s" % ("accepted" if ok_ else "refused")] += 1
            for kind, obj, born in list(readers) + [("md", drf.DigitalMetadataReader(mdir), "fresh"), ("rf", drf.DigitalRFReader(top), "fresh")]:
                res = query_pass(kind, obj, len(seq), "%s born %s after a back-filled sample" % (kind, born))
                if res is None:
                    continue
                age = "old" if born != "fresh" else "fresh"
                if kind == "md" and res["bounds"] != (min(written), max(written)):
                    bad({"class": "bounds_after_write", "write": "backfill", "reader_age": age}, "after a back-filled sample %d: md reader born %s get_bounds %r, written %s" % (
                        k, born, res["bounds"], sorted(written)))
                if res["range"] != sorted(written) or res["latest"] != [max(written)]:
                    bad({"class": "range_after_write", "reader": kind, "write": "backfill", "reader_age": age},
                        "after a back-filled sample %d: %s reader born %s range %s latest %s, written %s" % (k, kind, born, res["range"], res["latest"], sorted(written)))
                if kind == "md":
                    ff = [int(x) for x in obj.read(k, k, method="ffill")] if ok_ else [k]
                    if ff != [k]:
                        bad({"class": "ffill_after_write", "write": "backfill", "reader_age": age},
                            "after a back-filled sample %d: md reader born %s forward-fill read at it returned %s" % (k, born, ff))
        part["traces"] += 1
        part["nontrivial"].add(core.canon(seq))
        part["states"].add(core.canon((sorted(written), [r[0] for r in readers])))
        if not part["samples"]:
            part["samples"].append({"history": seq, "metadata_indices": sorted(written)})
    finally:
        core.rm(os.path.dirname(top) if os.path.basename(top) == "dataset" else top)
    return part


def replay(case):
    os.environ["VERIF_SEED"] = str(case.get("seed", 0))
    part = run_history(list(case["history"]))
    return [(v["key"], v["detail"]) for v in part["violations"]]


def main(tier):
    maxlen = 4 if tier == "quick" else 6
    chk = core.Check(
        PID, tier, "model_checking",
        rule=("all call sequences up to length %d over {metadata write into the same file / the next file / two files "
              "later, RF write, create metadata reader, create RF reader} with <=3 writes; after EVERY call every live "
              "reader (created earlier) and a brand-new reader of each kind run a full query pass (get_bounds, covering "
              "range read, read of the last index, read_latest / read_metadata, RF bounds + read, lsdrf) and the recursive "
              "(path, size, SHA-256, mode) snapshot of the tree is compared around each pass and each constructor.") % maxlen,
        assumptions=["readers use default constructor arguments (accept_empty=False is a documented destructive option outside the claim)"],
    )
    stage.activate()
    hs = histories(maxlen)
    rot = core.seed() % len(hs)
    hs = hs[rot:] + hs[:rot]
    for part in core.pmap(run_history, hs, chunksize=4):
        chk.merge(part)
    return chk.finish()
