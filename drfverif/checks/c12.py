"""C12 - Digital Metadata round-trip (sequence explorer with an exact dict model)."""

import itertools
import os

import numpy as np

from .. import core, md, stage

PID = "C12"

# (n, d, file cadence s, subdir cadence s, base file timestamp)
CONFIGS = [
    (1, 1, 1000, 4000, 0),            # small indices: 9->10, 99->100 digit changes inside one file
    (10, 3, 1, 10, 1394333998),       # 3-4 samples per file, non-integer rate
    (10**8, 7, 60, 3600, 1500000000 // 60 * 60),  # floating point hazard in file placement
    (1000, 1, 10, 3600, 1394333998),
]


def candidates(cfg):
    n, d, fc, sc, t0 = cfg
    a = md.first_of_ts(t0, n, d)
    b = md.first_of_ts(t0 + fc, n, d)
    c = md.first_of_ts(t0 + 2 * fc, n, d)
    e = md.first_of_ts(t0 + 3 * fc, n, d)
    if (n, d) == (1, 1) and t0 == 0:
        cand = [5, 9, 10, 99, 100, 999, 1000, 1500, 3000]
    else:
        cand = [a, a + 1, (a + b) // 2, b - 1, b, (b + c) // 2, e, e + 1]
    cand = sorted(set(k for k in cand if k >= 1))
    return cand


def histories(cfg, tier):
    cand = candidates(cfg)
    out = []
    maxk = 3 if tier == "quick" else 4
    subsets = []
    for r in range(1, maxk + 1):
        subsets += list(itertools.combinations(cand, r))
    for s in subsets:
        s = list(s)
        out.append([("dict", s)])
        out.append([("list", s)])
        if len(s) == 2:
            out.append([("list_last_empty", s)])  # the highest index carries no fields at all (a bare event marker)
        if len(s) > 1:
            out.append([("single", [k]) for k in s])
            h = len(s) // 2
            out.append([("list", s[:h]), ("dict", s[h:])])
        # duplicate write of an existing index (must be refused, sample unchanged)
        out.append([("dict", s), ("dup", [s[0]])])
        if len(s) > 1:
            out.append([("list", s), ("dupbatch", [s[-1], s[-1] + 3])])
    return out


def edge_set(model, cfg):
    n, d, fc, sc, t0 = cfg
    edges = set()
    for k in model.samples:
        edges.update((k - 1, k, k + 1))
        t = md.file_ts(k, n, d, fc)
        f0, f1 = md.first_of_ts(t, n, d), md.first_of_ts(t + fc, n, d)
        edges.update((f0 - 1, f0, f1 - 1, f1))
    return sorted(e for e in edges if e >= 0)


def run_history(args):
    import digital_rf as drf

    cfg, hist, tier = args
    n, d, fc, sc, t0 = cfg
    part = core.new_part()
    top = core.new_scratch()
    mdir = os.path.join(top, "md")
    os.makedirs(mdir)
    case = {"cfg": list(cfg), "history": hist}
    model = md.MdModel(n, d, fc, sc, "meta")

    def bad(key, detail, **extra):
        if len(part["violations"]) < 12:
            part["violations"].append(core.Violation(key, dict(case, **extra), detail))

    try:
        w = drf.DigitalMetadataWriter(mdir, sc, fc, n, d, "meta")
        poll_reader = None
        cands = candidates(cfg)
        poll_lo, poll_hi = max(cands[0] - 1, 0), cands[-1] + 10
        for hi_, (form, ks) in enumerate(hist):
            part["transitions"] += 1
            if form in ("dup", "dupbatch"):
                before = {k: md.canon_val(v) for k, v in model.samples.items()}
                try:
                    if form == "dup":
                        w.write(ks[0], {"a": -1, "b": -1.0, "c": "overwritten"})
                    else:
                        w.write(ks, [{"a": -1, "c": "overwritten"} for _ in ks])
                    bad({"class": "duplicate_write_accepted"}, "write of existing index %r was accepted" % ks[0])
                except IOError:
                    pass
                except Exception as e:  # noqa: BLE001
                    bad({"class": "duplicate_write_wrong_exception", "exc": type(e).__name__}, repr(e))
                r = drf.DigitalMetadataReader(mdir)
                got = r.read(ks[0], ks[0])
                if [int(k) for k in got] != [ks[0]] or md.canon_val(got[ks[0]]) != before[ks[0]]:
                    bad({"class": "duplicate_write_changed_sample"}, "sample %d after refused write: %r" % (ks[0], got))
                # a refused batch may not leave part of itself behind either? (not claimed) - model only what is defined
                if form == "dupbatch":
                    # the second index of the batch was never accepted: it must not be claimed written by the model;
                    # whatever the implementation did with it is outside the statement, so stop this history here
                    break
                continue
            ncall = sum(1 for f_, _ in hist[:hi_] if f_ not in ("dup", "dupbatch"))
            if form == "dict":
                data, exp = md.dict_form(ks)
                if ncall:
                    # field names (top level and nested) that the channel's first write did not have
                    data = dict(data, added_later=[100 * ncall + i_ for i_ in range(len(ks))], late={"q": "call%d" % ncall})
                    exp = [md.distribute(data, i_, len(ks)) for i_ in range(len(ks))]
                w.write(ks, data)
            elif form in ("list", "list_last_empty"):
                data, exp = md.list_form(ks)
                if form == "list_last_empty":
                    data = list(data[:-1]) + [{}]
                    exp = data
                if ncall:
                    data = [dict(v_, added_later=100 * ncall + i_, late={"q": "call%d" % ncall}) for i_, v_ in enumerate(data)]
                    exp = data
                w.write(ks, data)
            else:
                data, exp = md.list_form(ks)
                if ncall:
                    data = [dict(v_, added_later=100 * ncall + i_, late={"q": "call%d" % ncall}) for i_, v_ in enumerate(data)]
                    exp = data
                w.write(ks[0], data[0])
            for k, v in zip(ks, exp):
                model.samples[k] = v
            if poll_reader is None:
                poll_reader = drf.DigitalMetadataReader(mdir)
            pk = [int(x) for x in poll_reader.read(poll_lo, poll_hi)]
            part["evaluations"] += 1
            if pk != sorted(model.samples):
                bad({"class": "polling_reader_stale"}, "long-lived reader, fixed query read(%d,%d): %s, written %s" % (poll_lo, poll_hi, pk, sorted(model.samples)))
            # the same long-lived reader: its bounds and its latest sample follow every write as well
            try:
                pb = tuple(int(x) for x in poll_reader.get_bounds())
                pl = [int(k) for k in poll_reader.read_latest()]
            except Exception as e:  # noqa: BLE001
                pb, pl = ("raised", repr(e)), None
            part["evaluations"] += 2
            if pb != tuple(model.bounds()) or pl != [max(model.samples)]:
                bad({"class": "polling_reader_stale", "query": "bounds_latest"}, "long-lived reader: get_bounds %r read_latest %r, written %s" % (pb, pl, sorted(model.samples)))
            # ---- after every write: bounds, latest, placement
            r = drf.DigitalMetadataReader(mdir)
            part["evaluations"] += 3
            try:
                b = r.get_bounds()
            except Exception as e:  # noqa: BLE001
                b = ("raised", repr(e))
            if tuple(b) != model.bounds():
                bad({"class": "bounds"}, "get_bounds %r, smallest/largest index written %r (stored: %s)" % (
                    b, model.bounds(), sorted(model.samples)))
            try:
                lt = r.read_latest()
                if [int(k) for k in lt] != [max(model.samples)]:
                    bad({"class": "read_latest"}, "read_latest keys %s expected [%d]" % ([int(k) for k in lt], max(model.samples)))
            except Exception as e:  # noqa: BLE001
                bad({"class": "read_latest_raised"}, repr(e))
        # ---- final state: all (s,e) x methods, columns on a linear subset
        if hist[-1][0] == "dupbatch":
            return part
        r = drf.DigitalMetadataReader(mdir)
        want_fields = sorted(set(md.value_for(1)) | set(md.CONSTANT_FIELDS))  # every write form carries all fields
        if sorted(r.get_fields()) != want_fields:
            bad({"class": "fields"}, "get_fields %s expected %s" % (r.get_fields(), want_fields))
        edges = edge_set(model, cfg)
        cmodel = {k: md.canon_val(v) for k, v in model.samples.items()}
        for s in edges:
            for e in edges:
                if e < s:
                    continue
                for method in (None, "ffill"):
                    if method and tier == "quick" and e not in (s, edges[-1]):
                        continue
                    part["evaluations"] += 1
                    try:
                        got = r.read(s, e, method=method)
                    except Exception as ex:  # noqa: BLE001
                        bad({"class": "read_raised", "exc": type(ex).__name__}, "read(%d,%d,%r): %r" % (s, e, method, ex), query=[s, e, method])
                        continue
                    keys = [int(k) for k in got]
                    exp = model.expected_read(s, e, method)
                    part["outcomes"]["%s n=%d" % (method, len(keys))] += 1
                    if keys != exp:
                        cls = "ffill_keys" if method else "range_keys"
                        bad({"class": cls}, "read(%d,%d,method=%r) keys %s expected %s (stored %s)" % (
                            s, e, method, keys, exp, sorted(model.samples)), query=[s, e, method])
                        continue
                    for k, v in got.items():
                        if md.canon_val(v) != cmodel[int(k)]:
                            bad({"class": "values"}, "read(%d,%d) sample %d: %r expected %r" % (s, e, k, md.canon_val(v), cmodel[int(k)]),
                                query=[s, e, method])
                            break
        lo, hi = model.bounds()
        # file-system state the writer did not produce: a valid but empty metadata file with an expected name at the
        # old end of the channel (a recorder interrupted right after opening a new file leaves one): it describes no sample
        import h5py

        t_old = md.file_ts(lo, n, d, fc) - 3 * fc
        if t_old >= 0:
            ghost = os.path.join(mdir, md.relpath(md.first_of_ts(t_old, n, d), n, d, fc, sc, "meta"))
            if not os.path.exists(ghost):
                os.makedirs(os.path.dirname(ghost), exist_ok=True)
                h5py.File(ghost, "w").close()
                part["evaluations"] += 2
                try:
                    import contextlib
                    import io

                    with contextlib.redirect_stdout(io.StringIO()):  # (the reader prints a note about the file)
                        rg = drf.DigitalMetadataReader(mdir)
                        bg = tuple(rg.get_bounds())
                        lg = [int(k) for k in rg.read_latest()]
                    if bg != (lo, hi) or lg != [hi]:
                        bad({"class": "empty_file_changes_answers"}, "with an empty %s present: get_bounds %r (samples span %r), read_latest %s" % (
                            os.path.basename(ghost), bg, (lo, hi), lg))
                except Exception as e:  # noqa: BLE001
                    bad({"class": "empty_file_breaks_reader", "exc": type(e).__name__}, "with an empty %s present: %r" % (os.path.basename(ghost), e))
                os.remove(ghost)
                try:
                    os.rmdir(os.path.dirname(ghost))
                except OSError:
                    pass
        # a query for a column no sample has (files aged beyond their cadence first): whatever it
        # returns or raises, every written sample must still be there afterwards
        for r_, d_, fs_ in os.walk(mdir):
            for f_ in fs_:
                os.utime(os.path.join(r_, f_), (1000000000, 1000000000))
        try:
            r.read(lo, hi, columns="no_such_field")
        except (KeyError, IOError):
            pass
        part["evaluations"] += 1
        again = [int(k) for k in drf.DigitalMetadataReader(mdir).read(lo, hi)]
        if again != sorted(model.samples):
            bad({"class": "samples_lost_after_column_query"}, "after read(columns='no_such_field'): %s, written %s" % (again, sorted(model.samples)))
        for s in edges:
            for (qs, qe) in ((s, hi + 1), (max(lo - 1, 0), s)):
                if qe < qs:
                    continue
                part["evaluations"] += 3
                exp = model.expected_read(qs, qe)
                if any("a" not in cmodel[k_] for k_ in exp):
                    continue  # a sample without these fields is in range: selecting them is not defined by the claim
                g1 = r.read(qs, qe, columns="a")
                if [int(k) for k in g1] != exp or any(md.canon_val(v) != cmodel[int(k)]["a"] for k, v in g1.items()):
                    bad({"class": "column_string"}, "read(%d,%d,columns='a') -> %r" % (qs, qe, dict(g1)), query=[qs, qe])
                g2 = r.read(qs, qe, columns=["a", "nest"])
                if [int(k) for k in g2] != exp or any(
                        md.canon_val(v) != {"a": cmodel[int(k)]["a"], "nest": cmodel[int(k)]["nest"]} for k, v in g2.items()):
                    bad({"class": "column_list"}, "read(%d,%d,columns=['a','nest']) -> %r" % (qs, qe, dict(g2)), query=[qs, qe])
                fd = r.read_flatdict(qs, qe, columns=["a", "c"])
                if [int(x) for x in fd["index"]] != exp or (exp and [int(x) for x in fd["a"]] != [cmodel[k]["a"] for k in exp]):
                    bad({"class": "flatdict"}, "read_flatdict(%d,%d) -> %r" % (qs, qe, fd), query=[qs, qe])
        part["traces"] += 1
        part["states"].add(core.canon((cfg, sorted(model.samples))))
        part["nontrivial"].add(core.canon((cfg, hist)))
        if not part["samples"]:
            part["samples"].append({"cfg": list(cfg), "history": hist, "edges": edges[:12]})
    finally:
        core.rm(top)
    return part


def replay(case):
    part = run_history((tuple(case["cfg"]), [(f, list(k)) for f, k in case["history"]], "thorough"))
    return [(v["key"], v["detail"]) for v in part["violations"]]


def main(tier):
    chk = core.Check(
        PID, tier, "model_checking",
        rule=("4 rate/cadence configurations x every subset of <=4 of 8-9 candidate indices (file first/last/mid samples, "
              "digit-change neighbours 9/10 and 99/100 in one file, next file, two files later) x write forms {one "
              "dict-of-arrays call, one list-of-dicts call, one call per sample, split list+dict} plus duplicate writes; after "
              "every write: bounds, read_latest; at the end ALL (s,e) over the edge set (stored index +-1, file boundaries "
              "+-1) x method {None, ffill} with full value comparison, and columns='a' / ['a','nest'] / read_flatdict / "
              "get_fields on a linear subset. Values: int, float, str, bool, None, 1-D and 2-D arrays (length == and != batch "
              "size), nested dict two deep."),
        assumptions=["None is compared as the empty string (the writer's documented substitution)",
                     "numpy scalars/arrays are compared with Python values after canonicalisation"],
    )
    stage.activate()
    jobs = [(cfg, h, tier) for cfg in CONFIGS for h in histories(cfg, tier)]
    rot = core.seed() % len(jobs)
    jobs = jobs[rot:] + jobs[:rot]
    for part in core.pmap(run_history, jobs, chunksize=4):
        chk.merge(part)
    return chk.finish()
