"""C03 - exact sample-index <-> time conversion (exhaustive grids through the real C functions)."""

import datetime
import os

import numpy as np

from .. import chelper, core, stage

PID = "C03"
Y9999 = 253402300800  # 10000-01-01T00:00:00Z
T12 = 10**12
EPOCH = datetime.datetime(1970, 1, 1)


def small_jobs(tier):
    N = 48 if tier == "quick" else 128
    K = 4096 if tier == "quick" else 16384
    return [("small", n, d, K) for n in range(1, N + 1) for d in range(1, N + 1)]


def mag_values(tier):
    ns = [1, 2, 3, 7, 10, 999, 1000, 1001, 2**16 - 1, 2**16, 2**16 + 1, 44100, 48000, 10**6, 10**6 + 3, 999983,
          10**7, 10**8, 125 * 10**6, 10**9, 10**9 + 7, 2**31 - 1, 2**31, 2**31 + 1, 4294967291, 2**32 - 1]
    ds = [1, 2, 3, 7, 10, 63, 999, 1000, 1001, 2**16 + 1, 10**6, 10**6 + 3, 10**8 + 7, 10**9 - 63, 10**9]
    if tier != "quick":
        ns += [5, 11, 127, 8191, 2**20 - 3, 2**24 + 43, 10**5 + 3, 299792458, 4294967279]
        ds += [5, 11, 127, 8191, 2**20 - 3, 2**24 + 43, 10**7 + 19, 999999937]
    return sorted(set(ns)), sorted(set(ds))


def mag_jobs(tier):
    ns, ds = mag_values(tier)
    return [("mag", n, d, tier) for n in ns for d in ds]


def k_grid(n, d, tier):
    ks = set()
    kmax = min(2**63 - 1, (Y9999 * n - 1) // d)  # floor(k*d/n) < Y9999
    mult = [0, 1, 2, 3, 59, 60, 3600, 86400, 10**6, 1394368230, 1500000000, 2**31, 4102444800, 2**32, 10**10, Y9999 - 1]
    for m in mult:
        for q in (m * n // d, -((-m * n) // d)):  # samples around second m
            for dlt in (-2, -1, 0, 1, 2, n - 1, n // 2, n, n + 1):
                ks.add(q + dlt)
        for dlt in (-1, 0, 1):
            ks.add(m * n + dlt)
    for p in (2**32, 2**53, 2**62, 2**63 - 1, 10**15, 10**18):
        for dlt in (-2, -1, 0, 1):
            ks.add(p + dlt)
    ks.update((kmax, kmax - 1, kmax - n, kmax // 2, kmax // 3))
    if tier != "quick":
        for i in range(1, 2000):
            ks.add(kmax * i // 2000)
            ks.add(kmax * i // 2000 + 1)
    return sorted(k for k in ks if 0 <= k <= kmax)


def equiv_jobs(tier):
    out = []
    for (n, d) in ((1000, 1), (200, 3), (44100, 1), (10, 3), (48000, 7), (10**6, 3)):
        out.append(("equiv", n, d, (10, 1000, 7)))
    return out


def run_equiv(job):
    """calls with n/d, then (m*n)/(m*d), then n/d again: results depend on (k, n, d) only, never on call history"""
    part = core.new_part()
    _, n, d, mults = job
    ks = np.array(sorted({0, 1, n - 1, n, n + 1, 7 * n + n // 3, 10**6 + 1, 10**9 + n // 2, 1394333998 * n // d + 3}), dtype=np.uint64)
    seq = [(n, d)]
    for m in mults:
        if n * m < 2**32 and d * m <= 10**9:
            seq += [(n * m, d * m), (n, d)]
    for (nn, dd) in seq:
        rc, sec, ps = chelper.floor_batch(nn, dd, ks)
        for k, s_, p_ in zip(ks.tolist(), sec.tolist(), ps.tolist()):
            es, rem = divmod(k * dd, nn)
            ep = rem * T12 // nn
            if rc or (s_, p_) != (es, ep):
                if len(part["violations"]) < 3:
                    part["violations"].append(core.Violation({"class": "floor_depends_on_call_history"}, {"job": list(job)},
                                                             "timestamp_floor(k=%d,n=%d,d=%d) = (%d,%d), exact (%d,%d), after the call sequence %r" % (k, nn, dd, s_, p_, es, ep, seq)))
        rc2, back = chelper.ceil_batch(nn, dd, sec, ps)
        if rc2 or back.tolist() != ks.tolist():
            if len(part["violations"]) < 3:
                part["violations"].append(core.Violation({"class": "roundtrip"}, {"job": list(job)}, "round trip fails for n=%d d=%d after %r" % (nn, dd, seq)))
        part["evaluations"] += 2 * len(ks)
        part["transitions"] += 2 * len(ks)
    part["nontrivial"].add(core.canon(job))
    part["states"].add(core.canon(job))
    part["outcomes"]["equivalent_fractions"] += 1
    return part


LOCK_SCRIPT = r"""
import sys, numpy as np
import digital_rf as drf
for k in (1, 10**9, 10**11, 46478000000 // 3):
    drf.get_unix_time(k, 10, 3)
import os; os.makedirs(sys.argv[1])
w = drf.DigitalRFWriter(sys.argv[1], np.int16, 2, 1000, 1394333998 * 10, 10, 1, "u", 0, False, False, 1, False, False)
w.rf_write(np.arange(25, dtype=np.int16))
w.rf_write_blocks(np.arange(9, dtype=np.int16), [40, 52], [0, 4])
w.close()
"""


def run_lock(job):
    """The conversion (and every file/subdirectory name) goes through libc gmtime(), whose result lives in one
    static buffer: results are only a function of the index as long as every entry into the C library is
    serialised by the interpreter lock.  One subprocess under native/gilprobe.c reports, for every gmtime()
    call made from inside the extension module, whether the calling thread held that lock."""
    import subprocess
    import sys

    part = core.new_part()
    st = stage.activate()
    top = core.new_scratch()
    try:
        outp = os.path.join(top, "probe.out")
        env = dict(os.environ, LD_PRELOAD=os.path.join(st, "gilprobe.so"), GILPROBE_OUT=outp,
                   PYTHONPATH=st + os.pathsep + os.environ.get("PYTHONPATH", ""))
        r = subprocess.run([sys.executable, "-c", LOCK_SCRIPT, os.path.join(top, "ch")], env=env, capture_output=True, text=True, timeout=300)
        if r.returncode != 0 or not os.path.exists(outp):
            raise core.HarnessError("lock probe failed: rc=%s %s" % (r.returncode, r.stderr[-2000:]))
        for ln in open(outp):
            fn, calls, unheld = ln.split()
            part["evaluations"] += int(calls)
            part["transitions"] += int(calls)
            part["outcomes"]["%s_calls_from_extension:%s" % (fn, "all_under_interpreter_lock" if int(unheld) == 0 else "some_without_lock")] += 1
            if int(calls) == 0:
                # an implementation that does not go through gmtime() at all has nothing to serialise here
                part["outcomes"]["%s_not_used_by_extension" % fn] += 1
            if int(unheld):
                part["violations"].append(core.Violation(
                    {"class": "non_reentrant_conversion_outside_interpreter_lock", "fn": fn}, {"job": list(job)},
                    "%s of %s %s() calls made by the extension module ran without the interpreter lock: concurrent callers "
                    "share its static result buffer, so the returned calendar time is no longer a function of the index" % (unheld, calls, fn)))
    finally:
        core.rm(top)
    part["traces"] += 1
    return part


def run_calendar(job):
    """calendar breakdown of the public conversion for whole days: first second, noon and last second of every
    day of the years y0..y1 (at 1 Hz the index is the Unix second)"""
    import digital_rf as drf

    _, y0, y1, only_edges = job
    part = core.new_part()
    day = datetime.date(y0, 1, 1)
    end = datetime.date(y1, 12, 31)
    one = datetime.timedelta(days=1)
    e0 = datetime.date(1970, 1, 1)
    ndays = 0
    while day <= end:
        if only_edges and not ((day.month == 2 and day.day >= 27) or (day.month == 3 and day.day <= 2) or (day.month == 12 and day.day >= 30)
                               or (day.month == 1 and day.day <= 2)):
            if day == datetime.date.max:
                break
            day += one
            continue
        base = (day - e0).days * 86400
        if ndays % 97 == 0:
            # a conversion beyond the calendar's range is refused - and leaves nothing behind that the next,
            # ordinary conversions could trip over (results depend on the index only, never on the call history)
            try:
                drf.get_unix_time(10**17, 1, 1)
            except Exception:  # noqa: BLE001
                pass
        for sec in (0, 43200, 86399):
            k = base + sec
            dt, p = drf.get_unix_time(k, 1, 1)
            want = datetime.datetime(day.year, day.month, day.day, sec // 3600, sec % 3600 // 60, sec % 60)
            part["evaluations"] += 1
            if dt != want or p != 0:
                if len(part["violations"]) < 3:
                    part["violations"].append(core.Violation({"class": "calendar"}, {"job": list(job), "k": k},
                                                             "get_unix_time(%d,1,1) = (%s,%d), Unix second %d is %s" % (k, dt, p, k, want)))
        ndays += 1
        if day == datetime.date.max:
            break
        day += one
    part["transitions"] += part["evaluations"]
    part["outcomes"]["calendar_days~%d" % (ndays // 1000 * 1000)] += 1
    part["states"].add(core.canon(job))
    part["nontrivial"].add(core.canon(job))
    return part


def run_job(job):
    if job[0] == "equiv":
        return run_equiv(job)
    if job[0] == "calendar":
        return run_calendar(job)
    if job[0] == "lock":
        return run_lock(job)
    part = core.new_part()

    def bad(key, case, detail):
        if len(part["violations"]) < 4:
            part["violations"].append(core.Violation(key, case, detail))

    if job[0] == "small":
        _, n, d, K = job
        ks = np.arange(K, dtype=np.uint64)
        rc, sec, ps = chelper.floor_batch(n, d, ks)
        kd = ks * np.uint64(d)
        esec = kd // np.uint64(n)
        eps = (kd % np.uint64(n)) * np.uint64(T12) // np.uint64(n)
        if rc or not (np.array_equal(sec, esec) and np.array_equal(ps, eps)):
            i = int(np.nonzero((sec != esec) | (ps != eps))[0][0]) if not rc else 0
            bad({"class": "floor"}, {"job": list(job), "k": i},
                "timestamp_floor(k=%d,n=%d,d=%d) = (%d,%d), exact (%d,%d)" % (i, n, d, sec[i], ps[i], esec[i], eps[i]))
        tot = sec.astype(object) * T12 + ps.astype(object)
        if any(b < a for a, b in zip(tot[:-1], tot[1:])):
            bad({"class": "floor_not_monotone"}, {"job": list(job)}, "not monotone in k for n=%d d=%d" % (n, d))
        rc2, back = chelper.ceil_batch(n, d, sec, ps)
        if rc2 or not np.array_equal(back, ks):
            i = int(np.nonzero(back != ks)[0][0]) if not rc2 else 0
            bad({"class": "roundtrip"}, {"job": list(job), "k": i}, "sample_ceil(timestamp_floor(%d)) = %d (n=%d,d=%d)" % (i, back[i], n, d))
        # inverse: s in 0..64, p = j*1e12/n +-{0,1} and decade edges
        pset = set([0, 1, 999, 1000, 1001, 10**9 - 1, 10**9, 10**9 + 1, T12 - 1, T12 // 2])
        for j in range(0, n + 1):
            for dlt in (-1, 0, 1):
                pset.add(j * T12 // n + dlt)
                pset.add(-((-j * T12) // n) + dlt)
        ps_list = sorted(p for p in pset if 0 <= p < T12)
        secs = np.repeat(np.arange(0, 65, dtype=np.uint64), len(ps_list))
        pss = np.tile(np.array(ps_list, dtype=np.uint64), 65)
        rc3, kk = chelper.ceil_batch(n, d, secs, pss)
        nn = len(secs)
        exp = [-((-(int(s) * T12 + int(p)) * n) // (d * T12)) for s, p in zip(secs.tolist(), pss.tolist())]
        got = kk.tolist()
        if rc3 or got != exp:
            i = next(i for i in range(nn) if got[i] != exp[i]) if not rc3 else 0
            bad({"class": "ceil"}, {"job": list(job), "s": int(secs[i]), "p": int(pss[i])},
                "sample_ceil(s=%d,p=%d,n=%d,d=%d) = %d, exact %d" % (secs[i], pss[i], n, d, got[i], exp[i]))
        part["evaluations"] += 2 * K + nn
        part["transitions"] += 2 * K + nn
        part["nontrivial"].add(core.canon(job))
        part["states"].add(core.canon(job))
        part["outcomes"]["small"] += 1
        return part
    # ---- magnitude grid
    import digital_rf as drf

    _, n, d, tier = job
    ks = k_grid(n, d, tier)
    arr = np.array(ks, dtype=np.uint64)
    rc, sec, ps = chelper.floor_batch(n, d, arr)
    prev = -1
    secl, psl = sec.tolist(), ps.tolist()
    for i, k in enumerate(ks):
        es, rem = divmod(k * d, n)
        ep = rem * T12 // n
        if rc or secl[i] != es or psl[i] != ep:
            bad({"class": "floor"}, {"job": [job[0], n, d, tier], "k": k},
                "timestamp_floor(k=%d,n=%d,d=%d) = (%d,%d), exact (%d,%d)" % (k, n, d, secl[i], psl[i], es, ep))
            break
        tot = secl[i] * T12 + psl[i]
        if tot < prev:
            bad({"class": "floor_not_monotone"}, {"job": [job[0], n, d, tier], "k": k}, "not monotone at k=%d" % k)
        prev = tot
    rc2, back = chelper.ceil_batch(n, d, sec, ps)
    if rc2 or back.tolist() != ks:
        i = next(i for i in range(len(ks)) if int(back[i]) != ks[i]) if not rc2 else 0
        bad({"class": "roundtrip"}, {"job": [job[0], n, d, tier], "k": ks[i]},
            "sample_ceil(timestamp_floor(%d)) = %d (n=%d,d=%d)" % (ks[i], back[i], n, d))
    # inverse on perturbed timestamps: p +- 1 ps around each exact sample time and decade edges
    secs2, pss2 = [], []
    for s_, p_ in zip(secl[::3], psl[::3]):
        for dp in (-1, 1, 999, -1000, 10**9):
            p2 = p_ + dp
            if 0 <= p2 < T12:
                secs2.append(s_)
                pss2.append(p2)
    if secs2:
        rc3, kk = chelper.ceil_batch(n, d, np.array(secs2, dtype=np.uint64), np.array(pss2, dtype=np.uint64))
        for s_, p_, g in zip(secs2, pss2, kk.tolist()):
            e = -((-(s_ * T12 + p_) * n) // (d * T12))
            if e >= 2**64:
                continue
            if rc3 or g != e:
                bad({"class": "ceil"}, {"job": [job[0], n, d, tier], "s": s_, "p": p_},
                    "sample_ceil(s=%d,p=%d,n=%d,d=%d) = %d, exact %d" % (s_, p_, n, d, g, e))
                break
    # python wrapper on a subset
    nw = 0
    for k in ks[:: (7 if tier == "quick" else 3)]:
        es, rem = divmod(k * d, n)
        if es >= Y9999:
            continue
        ep = rem * T12 // n
        try:
            dt, p = drf.get_unix_time(k, n, d)
        except Exception as e:  # noqa: BLE001
            bad({"class": "wrapper_raised"}, {"job": [job[0], n, d, tier], "k": k}, "get_unix_time(%d,%d,%d) raised %r" % (k, n, d, e))
            break
        nw += 1
        want = EPOCH + datetime.timedelta(seconds=es, microseconds=ep // 10**6)
        if dt != want or p != ep:
            bad({"class": "wrapper"}, {"job": [job[0], n, d, tier], "k": k},
                "get_unix_time(%d,%d,%d) = (%s,%d), exact (%s,%d)" % (k, n, d, dt, p, want, ep))
            break
        # the same index as a numpy integer scalar: refused (TypeError) or exactly the same answer
        if k < 2**63:
            for T_ in (np.int64, np.uint64):
                try:
                    dt2, p2 = drf.get_unix_time(T_(k), n, d)
                except TypeError:
                    part["outcomes"]["numpy_index_refused"] += 1
                    continue
                except Exception as e:  # noqa: BLE001
                    bad({"class": "wrapper_raised", "index_type": T_.__name__}, {"job": [job[0], n, d, tier], "k": k}, "get_unix_time(%s(%d),%d,%d) raised %r" % (T_.__name__, k, n, d, e))
                    break
                nw += 1
                if (dt2, p2) != (want, ep):
                    bad({"class": "wrapper", "index_type": T_.__name__}, {"job": [job[0], n, d, tier], "k": k},
                        "get_unix_time(%s(%d),%d,%d) = (%s,%d), exact (%s,%d)" % (T_.__name__, k, n, d, dt2, p2, want, ep))
                    break
    part["evaluations"] += 2 * len(ks) + len(secs2) + nw
    part["transitions"] += 2 * len(ks) + len(secs2) + nw
    part["nontrivial"].add(core.canon((n, d)))
    part["states"].add(core.canon((n, d)))
    part["outcomes"]["mag kcount=%d" % (len(ks) // 50 * 50)] += 1
    if n == 10**6 + 3 and d == 7 and not part["samples"]:
        part["samples"].append({"n": n, "d": d, "k_values": ks[:6] + ks[-3:], "floor_of_last": [secl[-1], psl[-1]]})
    return part


def replay(case):
    job = tuple(case["job"])
    part = run_job(job)
    return [(v["key"], v["detail"]) for v in part["violations"]]


def main(tier):
    chk = core.Check(
        PID, tier, "exploration",
        rule=("(a) complete small scope n,d in 1..%d, k in 0..%d through digital_rf_get_timestamp_floor, the round trip "
              "through digital_rf_get_sample_ceil, and the inverse for s in 0..64 x all p of the form j*1e12/n +-1 plus decade "
              "edges; (b) complete product of a magnitude grid: %d numerators up to 2^32-1 x %d denominators up to 1e9 x ~%d "
              "indices each (multiples of n +-{0,1,2}, residues n-1 and n//2, seconds 0..year 9999, 2^32, 2^53, 2^62, 2^63-1, "
              "the last index before year 9999), monotonicity on the sorted grid, +-1 ps perturbations for the inverse, and the "
              "Python wrapper digital_rf.get_unix_time on a subset. A case is non-trivial/distinct per (n,d) pair. (c) one probe run: "
              "every gmtime() call the extension makes (conversion, file naming) is checked to happen under the interpreter lock. (d) calendar "
              "breakdown of digital_rf.get_unix_time at 1 Hz for the first second, noon and last second of every day 1970-2500 "
              "(thorough: -9999) and of the days around the end of February and the turn of the year up to 9999; indices also as numpy integers.")
        % ((48, 4095, 26, 15, 250) if tier == "quick" else (128, 16383, 35, 23, 4200)),
        assumptions=["values of k strictly between grid points at large magnitude are not covered",
                     "exact model: sec=k*d//n, ps=((k*d) mod n)*1e12//n, ceil((s*1e12+p)*n/(d*1e12)) in Python integers"],
    )
    stage.activate()
    jobs = small_jobs(tier) + mag_jobs(tier) + equiv_jobs(tier) + [("lock",)]
    # every day 1970-2500 (thorough: -9999), and the days around the end of February and the turn of the year up to 9999
    full_to = 2500 if tier == "quick" else 9999
    jobs += [("calendar", y, min(y + 49, full_to), False) for y in range(1970, full_to + 1, 50)]
    jobs += [("calendar", y, min(y + 499, 9999), True) for y in range(full_to + 1, 10000, 500)]
    rot = core.seed() % len(jobs)
    jobs = jobs[rot:] + jobs[:rot]
    for part in core.pmap(run_job, jobs, chunksize=8):
        chk.merge(part)
    return chk.finish()
