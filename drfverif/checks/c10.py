"""C10 - I/O fault containment in the writer (fault enumeration: every single-fault schedule)."""

import os

from .. import core, crash, fsctl, rf, stage, universe as U

PID = "C10"
ERRNOS = {"ENOSPC": 28, "EIO": 5}


def histories(tier):
    layouts = {
        "gap+rollover": [("open", {}), ("w", 0, 5), ("w", 7, 6), ("w", 13, 2), ("close",)],
        "blocks": [("open", {}), ("wb", [0, 5, 13], [0, 2, 6], 9), ("w", 20, 2), ("close",)],
        "blocks_only": [("open", {}), ("wb", [0, 4], [0, 2], 5), ("wb", [9, 13], [0, 3], 5), ("wb", [17, 21], [0, 1], 4), ("close",)],
    }
    out = []
    n, d, fc, sc = 10, 3, 1000, 2
    starts = U.start_positions(n, d, fc, sc, U.EPOCHS[1:2])
    modes = ("gapped", "cont") if tier == "quick" else ("gapped", "cont", "cont+cks", "gapped+gz9+cks")
    i = 0
    for mode in modes:
        for lname, ops in layouts.items():
            k0, label = starts[(3 * i) % len(starts)]
            i += 1
            out.append((dict(rf.Cfg(n=n, d=d, fc=fc, sc=sc, start=k0, **U.MODES[mode])), ops, "%s %s %s" % (mode, lname, label)))
    # files of 26-27 samples: after a fault at a rollover several further calls stay inside one file
    n, d, fc, sc = 200, 3, 400, 2
    k0 = rf.first_sample_of_ms(1394333998000 // 2000 * 2000, n, d) + 20
    big = [("open", {}), ("wb", [0, 3], [0, 2], 4), ("wb", [5, 12], [0, 3], 6), ("wb", [16, 19], [0, 2], 3), ("w", 22, 2),
           ("wb", [25, 29], [0, 1], 3), ("close",)]
    for mode in modes:
        out.append((dict(rf.Cfg(n=n, d=d, fc=fc, sc=sc, start=k0, **U.MODES[mode])), big, "%s calls_within_big_files" % mode))
    # data files larger than HDF5's 64 KiB sieve buffer: the library performs file I/O inside the write
    # call itself (allocation + fill of a continuous file, chunk eviction), not only when the file is closed
    n, d, fc, sc = 100000, 1, 400, 2
    k0 = rf.first_sample_of_ms(1394333998000 // 2000 * 2000, n, d) + 5000
    large = [("open", {}), ("w", 0, 30000), ("w", 30000, 30000), ("w", 70000, 20000), ("w", 95000, 1000), ("close",)]
    for mode in ("cont", "gapped"):
        out.append((dict(rf.Cfg(n=n, d=d, fc=fc, sc=sc, start=k0, **U.MODES[mode])), large, "%s large_files_io_inside_write" % mode))
    # the same with complex samples (the library writes complex data through a separate H5Dwrite call)
    out.append((dict(rf.Cfg(n=n, d=d, fc=fc, sc=sc, start=k0, kind="i", size=4, cplx=True, **U.MODES["cont"])), large,
                "cont complex large_files_io_inside_write"))
    # 100 samples per file filled by contiguous calls of 35: the chunked dataset of an open file is extended by
    # several calls, H5Dclose writes the raw chunks and the final H5Fclose has only metadata left to flush
    n, d, fc, sc = 100, 1, 1000, 2
    k0 = rf.first_sample_of_ms(1394333998000, n, d)
    many = [("open", {})] + [("w", 35 * j, 35 if j < 6 else 35) for j in range(7)] + [("close",)]
    for mode in ("gapped", "cont"):
        out.append((dict(rf.Cfg(n=n, d=d, fc=fc, sc=sc, start=k0, kind="i", size=4, cplx=False, **U.MODES[mode])), many,
                    "%s contiguous_calls_extend_open_file" % mode))
    return out


def baseline(item):
    """unfaulted run: operation list (kinds) so that schedules can be enumerated"""
    cfgd, ops, label = item
    cfg = rf.Cfg(**cfgd)
    top = core.new_scratch()
    try:
        r = fsctl.host().run(top, os.path.join(top, cfg["ch"]), cfg, ops, core.seed(), fsctl.plan())
        if r["status"] != 0:
            raise core.HarnessError("unfaulted run failed: %r" % (r,))
        return [(o["kind"], os.path.basename(o["path"]).startswith("tmp.rf@"), o["path"].endswith("drf_properties.h5")) for o in r["ops"]]
    finally:
        core.rm(top)


def phase_of(ops_log, i):
    """which library activity the faulted operation belongs to (for a specific finding key)"""
    if i >= len(ops_log):
        return "?"
    o = ops_log[i]
    base = os.path.basename(o["path"])
    if "drf_properties" in base:
        return "properties_file"
    if o["kind"] == "rename":
        return "rename_to_final"
    if o["kind"] == "mkdir":
        return "mkdir"
    if o["kind"] in ("open", "create"):
        return "file_create"
    if o["kind"] == "unlink":
        return "unlink"
    # write / trunc / close on a tmp data file: HDF5 flushes everything inside H5Fclose
    return "data_file_flush"


def run_schedules(args):
    item, schedules = args
    cfgd, ops, label = item
    seed = core.seed()
    part = core.new_part()
    cfg = rf.Cfg(**cfgd)
    host = fsctl.host()
    prefixes, model = crash.model_prefixes(cfg, ops)
    for (i, ename, persist, i2) in schedules:
        top = core.new_scratch()
        case = {"cfg": cfgd, "ops": ops, "seed": seed, "label": label, "fault_at": i, "errno": ename, "persist": persist, "fault_at2": i2}
        try:
            obs = crash.Observer(top, cfg)
            errs = []
            sess = host.start(top, os.path.join(top, cfg["ch"]), cfg, ops, seed,
                              fsctl.plan(fault_at=i, fault_at2=i2, errno=ERRNOS[ename], persist=persist, pause_after=1 << fsctl.KINDS["rename"]))
            while True:
                ev = sess.next_pause()
                if ev is None:
                    break
                allowed = prefixes[min(len(sess.calls), len(prefixes) - 1)]
                e1, _ = obs.observe(allowed, "after rename (op %d)" % ev[1]["i"], check_reader=False)
                errs += [(dict(k, when="while_running"), d) for k, d in e1]
            res = sess.result()
            e2, union = obs.observe(dict(model.written), "after process exit", check_reader=True)
            errs += [(dict(k, when="after_exit"), d) for k, d in e2]
            calls = res["calls"]
            # ---- (b)/(c): silent loss
            accepted = {}
            m2 = rf.Model()
            cur = cfg
            call_samples = []
            for ci, op in enumerate(ops):
                op = tuple(op)
                before = set(m2.written)
                if op[0] == "open":
                    m2.open_session(cur)
                elif op[0] == "close":
                    m2.close_session()
                else:
                    g, b, length = rf.op_blocks(op, m2.cursor)
                    arr = rf.values_for(cur, seed, g, b, length)
                    m2.apply_write(g, b, rf.row_bytes(arr))
                call_samples.append(set(m2.written) - before)
            ok_calls = [c["i"] for c in calls if c["status"] == "ok"]
            for ci in ok_calls:
                for k in call_samples[ci]:
                    accepted[k] = model.written[k]
            lost = sorted(k for k, row in accepted.items() if union.get(k) != row)
            # the call(s) during which the injected fault(s) occurred; with two faults the obligation to
            # report counts from the later one
            fcs = []
            for fi in (i, i2):
                if fi is None or fi < 0:
                    continue
                hit = [c["i"] for c in calls if c["opno_before"] <= fi < c["opno_after"]]
                fcs.append(hit[0] if hit else len(calls))  # beyond the operations actually issued
            first_fault_call, fault_call = min(fcs), max(fcs)
            later = [c for c in calls if c["i"] > fault_call]
            later_writes = [c for c in later if ops[c["i"]][0] in ("w", "wb", "wn")]
            phase = phase_of(res["ops"], i)
            sig = {"phase": phase, "persist": bool(persist)}
            part["evaluations"] += 1
            part["transitions"] += len(res["ops"])
            part["states"].add(core.canon((label, i, ename, persist, i2)))
            fcall_status = calls[fault_call]["status"] if fault_call < len(calls) else "none"
            outcome = "%s:%s:%s" % (phase, "lost" if lost else "nolost", fcall_status)
            part["outcomes"][outcome] += 1
            if lost:
                reported_in_fault_call = any(c["status"] == "exc" for c in calls if first_fault_call <= c["i"] <= fault_call)
                if later:
                    first_later = later[0]
                    if not reported_in_fault_call and first_later["status"] != "exc":
                        errs.append((dict(sig, **{"class": "silent_loss"}),
                                     "fault %s%s at op %d (%s): samples %s of calls that returned normally are not readable, yet the faulted "
                                     "call %d and the next call %d both returned normally" % (
                                         ename, "(persistent)" if persist else "", i, phase, lost[:4], fault_call, first_later["i"])))
                    bad_later = [c["i"] for c in later_writes if c["status"] != "exc"]
                    if bad_later and (reported_in_fault_call or first_later["status"] == "exc"):
                        errs.append((dict(sig, **{"class": "writes_continue_after_reported_loss"}),
                                     "fault at op %d (%s): loss was reported but later write calls %s succeeded" % (i, phase, bad_later)))
                elif not reported_in_fault_call and res["status"] == 0:
                    # no later call exists: the statement asks for nothing more (recorded as an outcome only)
                    part["outcomes"]["lost_in_last_call_unreported"] += 1
            if any(k["class"].startswith("final_file") or k["class"].startswith("reader") for k, _ in errs) and res["status"] != 0:
                pass
            for k, d in errs:
                key = dict(k, **sig) if "phase" not in k else k
                part["violations"].append(core.Violation(key, case, d))
            if not part["samples"]:
                part["samples"].append({"label": label, "fault_at": i, "errno": ename, "persist": persist, "phase": phase,
                                        "calls": [(c["op"], c["status"]) for c in calls], "lost": lost[:5], "exit_status": res["status"]})
        finally:
            core.rm(top)
    part["traces"] += 1
    part["nontrivial"] = part["states"]
    return part


def run_with_statement(mode):
    """Reporting reaches the recorder also when it uses the writer as a context manager: an error raised inside the
    `with` block (by the library for a failed/refused call, or by the recorder itself) leaves the block as an
    exception; the writer's own __exit__ must not swallow it."""
    import digital_rf as drf

    part = core.new_part()
    top = core.new_scratch()
    cfg = rf.Cfg(n=10, d=3, fc=1000, sc=2, start=rf.first_sample_of_ms(1394333998000, 10, 3), **U.MODES[mode])
    case = {"with_statement": mode}

    class Boom(Exception):
        pass

    try:
        for what in ("recorder_error", "refused_write", "write_after_failure"):
            chdir = os.path.join(top, what, "ch0")
            os.makedirs(chdir)
            propagated = None
            try:
                with rf.open_writer(drf, chdir, cfg) as w:
                    w.rf_write(rf.make_values(cfg, 0, cfg["start"], 5))  # a first file has been started
                    if what == "recorder_error":
                        raise Boom("recorder's own error")
                    elif what == "refused_write":
                        w.rf_write(rf.make_values(cfg, 0, cfg["start"], 2), 1)  # into the past: refused
                    else:
                        # the file the next write needs already exists under its final name: the C library refuses
                        k = cfg["start"] + 40
                        fn = os.path.join(chdir, rf.file_relpath(k, cfg))
                        os.makedirs(os.path.dirname(fn), exist_ok=True)
                        open(fn, "wb").close()
                        w.rf_write(rf.make_values(cfg, 0, k, 2), 40)
                propagated = False
            except Boom:
                propagated = True
            except Exception:  # noqa: BLE001
                propagated = True
            part["evaluations"] += 1
            part["outcomes"]["with:%s:%s" % (what, "propagated" if propagated else "swallowed")] += 1
            if not propagated:
                part["violations"].append(core.Violation({"class": "with_statement_swallows_error", "what": what}, dict(case, what=what),
                                                         "an exception raised inside `with DigitalRFWriter(...)` (%s) did not leave the with statement" % what))
        part["traces"] += 1
        part["states"].add(core.canon(("with", mode)))
    finally:
        core.rm(top)
    return part


def run_capi_faults(mode):
    """The same containment judged at the public C API, where the last call - digital_rf_close_write_hdf5 - has a return
    value too: every single fault (ENOSPC once, and 'disk stays full') at every file-system operation of one history,
    driven through native/drf_cdriver.c under the shim (armed through its environment variables).  Samples of calls that
    returned 0 but are not readable afterwards => some call, the close included, returned non-zero."""
    import subprocess

    part = core.new_part()
    st = stage.activate()
    seed = core.seed()
    n, d, fc, sc = 10, 3, 1000, 2
    cfg = rf.Cfg(n=n, d=d, fc=fc, sc=sc, start=rf.first_sample_of_ms(1394333998000, n, d), **U.MODES[mode])
    ops = [("w", 0, 5), ("w", 7, 6), ("w", 13, 2)]
    scratch = core.new_scratch()
    try:
        datafile = os.path.join(scratch, "data.bin")
        esc = lambda p_: p_.replace(" ", "\x01")
        model = rf.Model()
        model.open_session(cfg)
        blob = b""
        per_call = []

        def script(chdir):
            return ["create %s %s %s %d %d %d %d %d %d %s %d %d %d %d %d" % (
                esc(chdir), cfg["order"], cfg["kind"], cfg["size"], cfg["sc"], cfg["fc"], cfg["start"], cfg["n"], cfg["d"],
                cfg["uuid"], cfg["comp"], int(cfg["cks"]), int(cfg["cplx"]), cfg["nsub"], int(cfg["cont"]))] + wlines + ["close"]

        wlines = []
        for op in ops:
            g, b, length = rf.op_blocks(op, model.cursor)
            arr = rf.values_for(cfg, seed, g, b, length)
            raw = arr.tobytes()
            wlines.append("write %d %d %s %d %d" % (g[0], length, esc(datafile), len(blob), len(raw)))
            blob += raw
            before = set(model.written)
            model.apply_write(g, b, rf.row_bytes(arr))
            per_call.append({k: model.written[k] for k in set(model.written) - before})
        with open(datafile, "wb") as f:
            f.write(blob)

        def run(top, plan, logfd=-1):
            chdir = os.path.join(top, cfg["ch"])
            os.makedirs(chdir)
            env = dict(os.environ, LD_PRELOAD=os.path.join(st, "fsshim.so"), DRFSHIM_ROOT=top,
                       DRFSHIM_PLAN="%d -1 -1 0 %d -1 %d %d 0 0 1394400000" % (logfd, plan[0], plan[1], plan[2]))
            p = subprocess.run([os.path.join(st, "drf_cdriver_plain")], input="\n".join(script(chdir)) + "\n", capture_output=True, text=True,
                               env=env, pass_fds=(logfd,) if logfd >= 0 else (), timeout=120)
            return p

        # unfaulted run with the operation log, to know how many operations there are
        top0 = os.path.join(scratch, "base")
        os.makedirs(top0)
        logp = os.path.join(scratch, "ops.log")
        with open(logp, "wb") as lf:
            p0 = run(top0, (-1, 0, 0), lf.fileno())
        nops = sum(1 for ln in open(logp, "rb") if ln.startswith(b"O "))
        out0 = p0.stdout.split()
        if p0.returncode != 0 or nops < 10 or "X" not in out0:
            raise core.HarnessError("C-API baseline under the shim failed: rc=%s nops=%d out=%r err=%r" % (p0.returncode, nops, p0.stdout[-300:], p0.stderr[-300:]))
        for i in range(nops):
            for persist in (0, 2):
                top = os.path.join(scratch, "f%d_%d" % (i, persist))
                os.makedirs(top)
                p = run(top, (i, 28, persist))
                lines = [ln.split() for ln in p.stdout.splitlines() if ln[:2] in ("C ", "R ", "X ")]
                created = [ln for ln in lines if ln[0] == "C"]
                rcs = [int(ln[1]) for ln in lines if ln[0] == "R"]
                xrc = [int(ln[1]) for ln in lines if ln[0] == "X"]
                part["evaluations"] += 1
                part["transitions"] += nops
                if created and int(created[0][1]) != 0:
                    part["outcomes"]["capi:create_refused"] += 1
                    core.rm(top)
                    continue
                obs = crash.Observer(top, cfg)
                errs, union = obs.observe(dict(model.written), "C API, fault at op %d (%s)" % (i, "disk stays full" if persist else "once"), check_reader=True)
                accepted = {}
                for ci, rc_ in enumerate(rcs):
                    if rc_ == 0:
                        accepted.update(per_call[ci])
                lost = sorted(k for k, row in accepted.items() if union.get(k) != row)
                reported = any(rc_ != 0 for rc_ in rcs) or any(x != 0 for x in xrc) or len(rcs) < len(ops) or not xrc
                part["outcomes"]["capi:%s:%s" % ("lost" if lost else "nolost", "reported" if reported else "all_calls_returned_0")] += 1
                case = {"capi_faults": mode, "fault_at": i, "persist": persist}
                if lost and not reported:
                    errs.append(({"class": "silent_loss", "api": "C", "persist": bool(persist)},
                                 "C API, ENOSPC (%s) at op %d: samples %s of calls that returned 0 are not readable, and every call - the close included - returned 0" % (
                                     "disk stays full from there on" if persist else "once", i, lost[:4])))
                for k, d_ in errs:
                    part["violations"].append(core.Violation(dict(k, api="C"), case, d_))
                part["states"].add(core.canon(("capi", mode, i, persist)))
                core.rm(top)
        part["traces"] += 1
    finally:
        core.rm(scratch)
    part["nontrivial"] = part["states"]
    return part


def replay(case):
    if "capi_faults" in case:
        return [(v["key"], v["detail"]) for v in run_capi_faults(case["capi_faults"])["violations"]
                if v["case"].get("fault_at") == case.get("fault_at") and v["case"].get("persist") == case.get("persist")]
    if "with_statement" in case:
        return [(v["key"], v["detail"]) for v in run_with_statement(case["with_statement"])["violations"]]
    os.environ["VERIF_SEED"] = str(case.get("seed", 0))
    item = (case["cfg"], [tuple(o) for o in case["ops"]], case.get("label", "replay"))
    part = run_schedules((item, [(case["fault_at"], case["errno"], case["persist"], case.get("fault_at2", -1))]))
    return [(v["key"], v["detail"]) for v in part["violations"]]


def main(tier):
    chk = core.Check(
        PID, tier, "fault_enumeration",
        rule=("for each history (gap + rollover inside calls, multi-block call, rf_write_blocks only; gapped and continuous%s) EVERY intercepted "
              "file-system operation i (open/create, write, truncate, close, rename, mkdir) x errno {ENOSPC, EIO} x {once, "
              "persistent from i on for every operation} plus {ENOSPC persistent for space-consuming operations only: write, "
              "truncate, create, mkdir - rename/close keep working} is one execution of the public Python writer in a subprocess under the LD_PRELOAD shim%s; "
              "the tree is inspected after every rename while the process runs and after it has exited (library exit "
              "handlers included): final-named files valid, only written (index,value) pairs, bytes unchanged since first "
              "seen; samples of calls that returned normally but are not readable => the faulted call or the next call must "
              "have raised and all later writes must raise. The same single-fault sweep (ENOSPC once / disk stays full) is run at the "
              "public C API through native/drf_cdriver.c, where the closing call has a return value that counts as a report.")
        % (("", "") if tier == "quick" else (", +checksum, +gzip", "; plus all pairs of single faults (bound 2) for one history")),
        assumptions=["faults are injected at libc level in the operation stream of the HDF5 actually linked (system 1.10.8)",
                     "unlink/remove are not faulted (the property lists write, truncate, open/create, mkdir, rename, close)"],
    )
    stage.activate()
    hs = histories(tier)
    bases = core.pmap(baseline, hs, chunksize=1, isolate=False)
    jobs = []
    for item, base in zip(hs, bases):
        sched = []
        for i, (kind, is_tmp, is_prop) in enumerate(base):
            if kind == "unlink":
                continue
            for ename in ERRNOS:
                for persist in (0, 1):
                    sched.append((i, ename, persist, -1))
            if kind in ("write", "trunc", "create", "mkdir"):
                # the disk stays full: space-consuming operations keep failing, close/rename/unlink still work
                sched.append((i, "ENOSPC", 2, -1))
        for k in range(0, len(sched), 8):
            jobs.append((item, sched[k:k + 8]))
    if tier != "quick":
        item, base = hs[0], bases[0]
        idx = [i for i, b in enumerate(base) if b[0] != "unlink"]
        pairs = [(a, "EIO", 0, b) for a in idx for b in idx if a < b]
        for k in range(0, len(pairs), 16):
            jobs.append((item, pairs[k:k + 16]))
        chk.extra["deviation_bound_completed"] = 2
    else:
        chk.extra["deviation_bound_completed"] = 1
    rot = core.seed() % len(jobs)
    jobs = jobs[rot:] + jobs[:rot]
    for part in core.pmap(run_schedules, jobs, chunksize=1, isolate=False):
        chk.merge(part)
    for part in core.pmap(run_with_statement, ["gapped", "cont"], chunksize=1):
        chk.merge(part)
    for part in core.pmap(run_capi_faults, ["gapped", "cont"], chunksize=1):
        chk.merge(part)
    return chk.finish()
