"""C19 - writer bookkeeping matches the recording (sequence explorer; shares the C01 and C05 alphabets)."""

from .. import core, rf, rfjobs, stage, universe as U
from . import c01, c05

PID = "C19"


def jobs(tier):
    out = []
    for j in c01.layout_jobs(tier):
        _, cfg, hists, label = j
        out.append({"cfg": cfg, "hists": [h for h, _ in hists], "oracles": ["counters"], "label": label})
        multi = [h for h, _ in hists if len(h) >= 2]
        if multi:
            # the same histories with the getters queried only around the first call and after close
            out.append({"cfg": cfg, "hists": multi[::2], "oracles": ["counters"], "label": label + " sparse getters",
                        "opts": {"sparse_getters": True}})
    # relative indices beyond 32 bits (a long or very sparse recording)
    far = 2**32
    far_h = [[("w", 0, 2), ("wb", [far + 1, far + 9], [0, 2], 4), ("wn", 2)],
             [("wb", [3, far + 5], [0, 1], 3), ("w", far + 20, 1)]]
    for (n, d, fc, sc) in U.LAYOUT_RATES[:3]:
        k0 = U.start_positions(n, d, fc, sc, U.EPOCHS[1:2])[0][0]
        for mode in ("gapped", "cont", "gapped+gz9+cks"):
            out.append({"cfg": dict(c01._cfg(n, d, fc, sc, k0, mode)), "hists": far_h, "oracles": ["counters", "roundtrip_runs"],
                        "label": "far gap %d/%d %s" % (n, d, mode)})
    # complex channels (integer and float, one and two subchannels): data also arrive as real-typed interleaved I/Q
    seqs = U.write_seqs(2, U.L_RED, U.G_RED)
    for kind, size, nsub in (("i", 2, 1), ("f", 4, 1), ("i", 4, 2)):
        n, d, fc, sc = U.LAYOUT_RATES[0]
        k0 = U.start_positions(n, d, fc, sc, U.EPOCHS[1:2])[0][0]
        for mode in ("gapped", "cont"):
            out.append({"cfg": dict(c01._cfg(n, d, fc, sc, k0, mode, kind=kind, size=size, cplx=True, nsub=nsub)), "hists": seqs,
                        "oracles": ["counters"], "label": "complex %s%d x%d %s" % (kind, size, nsub, mode)})
    # histories with rejected calls interleaved, all modes
    rates = U.LAYOUT_RATES[:3] if tier == "quick" else U.LAYOUT_RATES
    bases = c05.base_histories(tier)
    ci = 0
    for (n, d, fc, sc) in rates:
        starts = U.start_positions(n, d, fc, sc, U.EPOCHS[1:2])
        for mode in U.MODES:
            k0, label = starts[ci % len(starts)]
            ci += 1
            cfg = dict(c01._cfg(n, d, fc, sc, k0, mode))
            hs = []
            for b in bases[:: (2 if tier == "quick" else 1)]:
                hs.extend(h for h, _ in c05.variants(b, double=(tier != "quick")))
            for i in range(0, len(hs), 60):
                out.append({"cfg": cfg, "hists": hs[i:i + 60], "oracles": ["counters"],
                            "label": "rejects %d/%d %s %s" % (n, d, mode, label)})
    return out


def replay(case):
    return rfjobs.replay_hist(case)


def main(tier):
    chk = core.Check(
        PID, tier, "model_checking",
        rule=("after every call of every history (C01 layout universe in all five storage modes, plus the C05 "
              "histories with rejected calls interleaved) the return value, get_next_available_sample, "
              "get_total_samples_written, get_total_gap_samples, their sum, get_last_file_written and "
              "get_last_dir_written (also after close) are compared with the model; distinct_nontrivial = "
              "distinct (config, written set, reject pattern)."),
        assumptions=["states after an I/O failure or a refused finalized-period entry are excluded, as the property states"],
    )
    stage.activate()
    js = jobs(tier)
    rot = core.seed() % max(1, len(js))
    js = js[rot:] + js[:rot]
    for part in core.pmap(rfjobs.run_hist_job, js, chunksize=1):
        chk.merge(part)
    return chk.finish()
