"""C09 - concurrent reader isolation and monotone visibility (exhaustive schedules at
file-system-operation granularity)."""

import os

from .. import core, crash, fsctl, rf, stage, universe as U

PID = "C09"


def histories(tier):
    layouts = {
        "gap+rollover": [("open", {}), ("w", 0, 5), ("w", 7, 6), ("close",)],
        "blocks": [("open", {}), ("wb", [0, 5, 13], [0, 2, 6], 9), ("close",)],
        "append+multi_subdir": [("open", {}), ("w", 0, 2), ("w", 2, 1), ("w", 3, 12), ("close",)],
    }
    modes = ["gapped", "cont", "cont+cks"]
    out = []
    n, d, fc, sc = 10, 3, 1000, 2
    starts = U.start_positions(n, d, fc, sc, U.EPOCHS[1:2])
    for mi, (mode, (lname, ops)) in enumerate(zip(modes, layouts.items())):
        k0, label = starts[(2 * mi + 1) % len(starts)]
        out.append((dict(rf.Cfg(n=n, d=d, fc=fc, sc=sc, start=k0, **U.MODES[mode])), ops, "%s %s %s" % (mode, lname, label)))
    if tier != "quick":
        for mi, mode in enumerate(modes):
            for li, (lname, ops) in enumerate(layouts.items()):
                if li == mi:
                    continue
                k0, label = starts[(mi + li) % len(starts)]
                out.append((dict(rf.Cfg(n=n, d=d, fc=fc, sc=sc, start=k0, **U.MODES[mode])), ops, "%s %s %s" % (mode, lname, label)))
    return out


def visible_at(cfg, model, renamed):
    """samples a reader must see given the set of renamed (finalized) relative paths"""
    ex = model.exposed(cfg)
    out = {}
    for k, row in ex.items():
        if rf.file_relpath(k, cfg) in renamed:
            out[k] = row
    return out


def reader_pass(reader, cfg, lo, hi):
    """-> (dict index -> row bytes or 'FILL', bounds)"""
    b = reader.get_bounds(cfg["ch"])
    got = {}
    for k, arr in reader.read(lo, hi, cfg["ch"]).items():
        for j, row in enumerate(rf.norm_rows(cfg, arr)):
            got[int(k) + j] = row
    blocks = reader.get_continuous_blocks(lo, hi, cfg["ch"])
    nb = sum(int(v) for v in blocks.values())
    return got, b, nb


def same(cfg, got, vis):
    if set(got) != set(vis):
        return False
    for k, row in got.items():
        if vis[k] is None:
            if not rf.rows_equal_fill(cfg, row):
                return False
        elif vis[k] != row:
            return False
    return True


def subset(cfg, got, vis):
    for k, row in got.items():
        if k not in vis:
            return False
        if vis[k] is None:
            if not rf.rows_equal_fill(cfg, row):
                return False
        elif vis[k] != row:
            return False
    return True


def covers(cfg, got, expected):
    """every expected sample (None = fill slot) is present in `got` with the right value"""
    for k, want in expected.items():
        if k not in got:
            return False
        if want is None:
            if not rf.rows_equal_fill(cfg, got[k]):
                return False
        elif want != got[k]:
            return False
    return True


def renamed_set(ops_so_far, top, cfg):
    out = set()
    chdir = os.path.join(top, cfg["ch"])
    for o in ops_so_far:
        if o["kind"] == "rename" and o["ret"] == 0 and o["path2"]:
            out.add(os.path.relpath(o["path2"], chdir))
    return out


def run_bound0(item):
    import digital_rf as drf

    cfgd, ops, label = item
    seed = core.seed()
    part = core.new_part()
    cfg = rf.Cfg(**cfgd)
    host = fsctl.host()
    case = {"cfg": cfgd, "ops": ops, "seed": seed, "label": label, "bound": 0}

    def bad(key, detail, **extra):
        if len(part["violations"]) < 10:
            part["violations"].append(core.Violation(key, dict(case, **extra), detail))

    _, model = crash.model_prefixes(cfg, ops)
    ex = model.exposed(cfg)
    lo, hi = max(min(ex) - 2, 0), max(ex) + 2
    top = core.new_scratch()
    try:
        sess = host.start(top, os.path.join(top, cfg["ch"]), cfg, ops, seed, fsctl.plan(pause_before=fsctl.ALL_KINDS_MASK))
        readers = []  # (created_at, reader, last result)
        point = 0
        while True:
            ev = sess.next_pause()
            at_end = ev is None
            i = ev[1]["i"] if ev else "end"
            done_ops = sess.ops[:-1] if ev else sess.ops
            vis = visible_at(cfg, model, renamed_set(done_ops, top, cfg))
            # a new reader at this point
            try:
                readers.append([i, drf.DigitalRFReader(top), None])
            except ValueError as e:
                if "No channels found" not in str(e):
                    bad({"class": "reader_constructor_failed"}, "at point %s: %r" % (i, e), point=i)
            except Exception as e:  # noqa: BLE001
                bad({"class": "reader_constructor_failed", "exc": type(e).__name__}, "at point %s: %r" % (i, e), point=i)
            for ent in readers:
                c, rd, prev = ent
                part["evaluations"] += 1
                part["transitions"] += 1
                try:
                    got, b, nb = reader_pass(rd, cfg, lo, hi)
                except Exception as e:  # noqa: BLE001
                    bad({"class": "reader_pass_raised", "exc": type(e).__name__}, "reader created at %s, pass at %s: %r" % (c, i, e), created=c, point=i)
                    continue
                part["outcomes"]["visible=%d" % len(got)] += 1
                if not same(cfg, got, vis):
                    miss = sorted(set(vis) - set(got))[:3]
                    extra = sorted(set(got) - set(vis))[:3]
                    bad({"class": "reader_not_exactly_finalized_files"},
                        "reader created at %s, pass at %s: missing %s extra %s (files renamed so far: %d)" % (c, i, miss, extra, len(renamed_set(done_ops, top, cfg))),
                        created=c, point=i)
                if nb != len(got):
                    bad({"class": "blocks_vs_read_during_recording"}, "reader created at %s, pass at %s: %d vs %d" % (c, i, nb, len(got)), created=c, point=i)
                wantb = (min(vis), max(vis)) if vis else (None, None)
                if tuple(b) != wantb:
                    bad({"class": "bounds_during_recording"}, "reader created at %s, pass at %s: bounds %r expected %r" % (c, i, b, wantb), created=c, point=i)
                if prev is not None and not subset(cfg, prev, {k: v for k, v in got.items()}):
                    bad({"class": "visibility_not_monotone"}, "reader created at %s lost or changed samples at %s" % (c, i), created=c, point=i)
                ent[2] = got
            part["states"].add(core.canon((label, i, len(vis))))
            if at_end:
                break
        res = sess.result()
        if res["status"] != 0:
            bad({"class": "unfaulted_run_failed"}, "status %r" % res["status"])
        if not same(cfg, readers[-1][2] or {}, ex):
            bad({"class": "not_everything_visible_after_close"}, "after close a reader sees %d of %d" % (len(readers[-1][2] or {}), len(ex)))
        for ent in readers:
            ent[1].close()
        part["traces"] += 1
        part["nontrivial"] = part["states"]
        if not part["samples"]:
            part["samples"].append({"label": label, "ops": ops, "fs_operations": len(res["ops"]), "readers": len(readers)})
    finally:
        core.rm(top)
    return part


class Preempt:
    """count the reader's own file-system calls; at call j let the writer advance"""

    def __init__(self, at, action):
        self.at = at
        self.action = action
        self.n = 0
        self.fired = False

    def tick(self):
        j = self.n
        self.n += 1
        if j == self.at and not self.fired:
            self.fired = True
            self.action()


def run_bound1(item):
    """one schedule: writer paused at point i; the reader pass is pre-empted at its j-th file-system
    call and the writer advances (m operations / to the next rename / to the end)"""
    import digital_rf as drf
    import h5py

    cfgd, ops, label, i_list, adv = item
    seed = core.seed()
    part = core.new_part()
    cfg = rf.Cfg(**cfgd)
    host = fsctl.host()
    _, model = crash.model_prefixes(cfg, ops)
    ex = model.exposed(cfg)
    lo, hi = max(min(ex) - 2, 0), max(ex) + 2
    for i in i_list:
        j = 0
        while True:
            top = core.new_scratch()
            case = {"cfg": cfgd, "ops": ops, "seed": seed, "label": label, "bound": 1, "point": i, "reader_call": j, "advance": adv}
            try:
                sess = host.start(top, os.path.join(top, cfg["ch"]), cfg, ops, seed, fsctl.plan(pause_before=fsctl.ALL_KINDS_MASK))
                ev = None
                for _ in range(i + 1):
                    ev = sess.next_pause()
                    if ev is None:
                        break
                if ev is None:
                    sess.finish()
                    break
                vis0 = visible_at(cfg, model, renamed_set(sess.ops[:-1], top, cfg))
                try:
                    rd = drf.DigitalRFReader(top)
                except ValueError:
                    sess.finish()
                    break  # no channel yet at this point: nothing to pre-empt
                except Exception as e:  # noqa: BLE001
                    part["violations"].append(core.Violation({"class": "reader_constructor_failed", "exc": type(e).__name__, "bound": 1}, case,
                                                             "writer at %d: DigitalRFReader(top) raised %r" % (i, e)))
                    sess.finish()
                    break

                def advance():
                    if adv == "end":
                        sess.finish()
                        return
                    want_renames = {"rename1": 1, "rename2": 2}.get(adv)
                    steps = adv if isinstance(adv, int) else 10**6
                    seen_renames = 0
                    for _ in range(steps):
                        e2 = sess.next_pause()
                        if e2 is None:
                            return
                        if want_renames and sess.ops[-2]["kind"] == "rename" if len(sess.ops) > 1 else False:
                            seen_renames += 1
                            if seen_renames >= want_renames:
                                return

                pre = Preempt(j, advance)
                real_listdir, real_access, real_file = os.listdir, os.access, h5py.File

                def listdir(*a, **k):
                    pre.tick()
                    return real_listdir(*a, **k)

                def access(*a, **k):
                    pre.tick()
                    return real_access(*a, **k)

                class File(real_file):
                    def __init__(self, *a, **k):
                        pre.tick()
                        super().__init__(*a, **k)

                os.listdir, os.access, h5py.File = listdir, access, File
                try:
                    got, b, nb = reader_pass(rd, cfg, lo, hi)
                    err = None
                except Exception as e:  # noqa: BLE001
                    err = e
                finally:
                    os.listdir, os.access, h5py.File = real_listdir, real_access, real_file
                ncalls = pre.n
                done_ops = sess.ops[:-1] if not sess.done else sess.ops
                vis1 = visible_at(cfg, model, renamed_set(done_ops, top, cfg))
                part["evaluations"] += 1
                part["transitions"] += 1
                part["states"].add(core.canon((label, i, j, adv)))
                if err is not None:
                    part["violations"].append(core.Violation({"class": "reader_pass_raised", "exc": type(err).__name__, "bound": 1}, case,
                                                             "writer at %d, reader pre-empted at its call %d, writer advanced %r: %r" % (i, j, adv, err)))
                else:
                    part["outcomes"]["saw=%d of %d..%d" % (len(got), len(vis0), len(vis1))] += 1
                    if not covers(cfg, got, vis0) or not subset(cfg, got, vis1):
                        part["violations"].append(core.Violation({"class": "reader_outside_visible_window", "bound": 1}, case,
                                                                 "writer at %d, reader call %d, advance %r: saw %d samples, visible before %d after %d" % (
                                                                     i, j, adv, len(got), len(vis0), len(vis1))))
                rd.close()
                sess.finish()
            finally:
                core.rm(top)
            j += 1
            if j >= ncalls:
                break
    part["traces"] += 1
    part["nontrivial"] = part["states"]
    return part


def replay(case):
    os.environ["VERIF_SEED"] = str(case.get("seed", 0))
    ops = [tuple(o) for o in case["ops"]]
    if case.get("bound") == 1:
        part = run_bound1((case["cfg"], ops, case["label"], [case["point"]], case["advance"]))
    else:
        part = run_bound0((case["cfg"], ops, case["label"]))
    return [(v["key"], v["detail"]) for v in part["violations"]]


def main(tier):
    chk = core.Check(
        PID, tier, "model_checking",
        rule=("writer = subprocess whose atomic steps are its intercepted file-system operations (paused before each one); "
              "bound 0: for EVERY pair (c, i), c <= i, a DigitalRFReader constructed at point c runs a pass (get_bounds, full "
              "read, get_continuous_blocks) at point i and must see exactly the samples of the files renamed so far (shim "
              "rename log), monotonically, with everything visible after close; bound 1%s: the pass at i is pre-empted at each "
              "of its own file-system calls j (os.listdir, os.access, h5py.File) while the writer advances {1 operation, to the "
              "next rename, to the next-but-one rename, to the end}: result within [visible(i), visible(i+m)]. "
              "Histories: gap+rollover (gapped), multi-block (continuous), append + multi-subdirectory (continuous+checksum).")
        % (" (every 4th point in the quick tier)" if tier == "quick" else ""),
        assumptions=["free-running reader and writer processes are not separately sampled: the claim is decided at operation granularity, "
                     "and rests on the C02 invariant that finalized bytes never change and nothing is removed",
                     "the reader's pre-emption points are its os.listdir / os.access / h5py.File calls"],
    )
    stage.activate()
    hs = histories(tier)
    for part in core.pmap(run_bound0, hs, chunksize=1, isolate=False):
        chk.merge(part)
    # bound 1
    jobs = []
    for (cfgd, ops, label) in hs[:3]:
        npts = 75
        step = 4 if tier == "quick" else 1
        for adv in (1, "rename1", "rename2", "end"):
            pts = list(range(0, npts, step))
            for k in range(0, len(pts), 4):
                jobs.append((cfgd, ops, label, pts[k:k + 4], adv))
    rot = core.seed() % len(jobs)
    jobs = jobs[rot:] + jobs[:rot]
    for part in core.pmap(run_bound1, jobs, chunksize=1, isolate=False):
        chk.merge(part)
    chk.extra["deviation_bound_completed"] = 1
    return chk.finish()
