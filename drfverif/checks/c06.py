"""C06 - self-describing data files and recoverable channel properties."""

import os

from .. import core, rf, rfjobs, stage, universe as U
from . import c01

PID = "C06"


def session_histories():
    """multi-call appends to an open file and several sessions with their own UUIDs"""
    hs = []
    for L1 in (1, 3, 9):
        for G in (0, 2, 9):
            for L2 in (1, 5):
                hs.append([("w", 0, L1), ("w", L1 + G, L2), ("close",),
                           ("open", {"uuid": "verif-session-1", "start_delta": 40}), ("w", 0, L2), ("w", L2 + G, L1)])
    return hs


def jobs(tier):
    out = []
    # every file of the layout universe: index rules + attributes; regeneration on a third (cost)
    for ji, j in enumerate(c01.layout_jobs(tier)):
        _, cfg, hists, label = j
        hs = [h for h, _ in hists]
        hs = hs[::4]  # (thorough differs by the much larger set of configurations and start positions)
        out.append({"cfg": cfg, "hists": hs, "oracles": ["selfdesc"], "label": label,
                    "opts": {"regen": ji % 3 == 0}})
    for j in c01.type_jobs(tier):
        _, cfg, hists, label = j
        out.append({"cfg": cfg, "hists": [h for h, _ in hists], "oracles": ["selfdesc"], "label": label,
                    "opts": {"regen": True}})
    for (n, d, fc, sc) in U.LAYOUT_RATES[:4]:
        starts = U.start_positions(n, d, fc, sc, U.EPOCHS[1:2])
        for mi, mode in enumerate(("gapped", "cont")):
            k0, label = starts[mi * 3 % len(starts)]
            cfg = dict(c01._cfg(n, d, fc, sc, k0, mode))
            out.append({"cfg": cfg, "hists": session_histories(), "oracles": ["selfdesc"],
                        "label": "sessions %d/%d %s" % (n, d, mode), "opts": {"regen": True}})
    # session start timestamps at realistic rates: first sample just before / on / after a whole second
    for (n, d) in U.FP_RATES + [(10**10, 1001)]:
        for T in (1500000000, 1700000000, 4102444799):
            base = -((-T * n) // d)  # first sample at or after second T
            for delta in (-3, -1, 0, 1):
                k0 = base + delta
                fc = 1000
                if n * fc < d * 1000:
                    continue
                cfg = dict(rf.Cfg(n=n, d=d, fc=fc, sc=3600, start=k0, cont=False))
                out.append({"cfg": cfg, "hists": [[("w", 0, 2)]], "oracles": ["selfdesc"],
                            "label": "session start %d/%d T=%d%+d" % (n, d, T, delta), "opts": {"regen": delta == 0}})
    return out


def run_default_uuid(mode):
    """Sessions started without an explicit uuid_str: every session gets its own identifier, and each file carries
    the identifier of the session that wrote it."""
    import digital_rf as drf
    import h5py
    import numpy as np

    part = core.new_part()
    top = core.new_scratch()
    try:
        chdir = os.path.join(top, "ch0")
        os.makedirs(chdir)
        n, d, fc, sc = 10, 3, 1000, 2
        start = rf.first_sample_of_ms(1394333998000, n, d)
        sess = []
        for si in range(3):
            w = drf.DigitalRFWriter(chdir, np.int16, sc, fc, start + 40 * si, n, d, is_complex=False, is_continuous=(mode == "cont"),
                                    compression_level=0, checksum=False, marching_periods=False)
            w.rf_write(np.arange(5, dtype=np.int16))
            uid = w.uuid
            w.close()
            sess.append((uid, start + 40 * si))
        part["evaluations"] += 1
        if len({u for u, _ in sess}) != len(sess):
            part["violations"].append(core.Violation({"class": "session_uuid_not_per_session"}, {"default_uuid": mode},
                                                     "three sessions started without uuid_str report the identifiers %s" % [u for u, _ in sess]))
        for rel in rf.list_tree(chdir):
            if "/rf@" not in rel:
                continue
            with h5py.File(os.path.join(chdir, rel), "r") as f:
                a = f["rf_data"].attrs
                fu = a["uuid_str"]
                fu = fu.decode() if isinstance(fu, bytes) else str(fu)
                first = int(f["rf_data_index"][0, 0])
            owner = [u for u, s0 in sess if s0 <= first < s0 + 40]
            part["evaluations"] += 1
            if owner and fu != owner[0]:
                part["violations"].append(core.Violation({"class": "file_uuid_not_its_sessions"}, {"default_uuid": mode},
                                                         "%s carries uuid %s, its session reported %s" % (rel, fu, owner[0])))
        part["traces"] += 1
        part["states"].add(core.canon(("default_uuid", mode)))
        part["nontrivial"].add(core.canon(("default_uuid", mode)))
        part["outcomes"]["default_uuid_sessions"] += 1
    finally:
        core.rm(top)
    return part


def replay(case):
    if "default_uuid" in case:
        return [(v["key"], v["detail"]) for v in run_default_uuid(case["default_uuid"])["violations"]]
    return rfjobs.replay_hist(case)


def main(tier):
    chk = core.Check(
        PID, tier, "model_checking",
        rule=("every rf@*.h5 produced by the C01 layout universe, the type universe (all scalar types x byte orders x "
              "real/complex x subchannels x storage modes x 6 gap layouts) and two-session histories is opened with raw "
              "h5py: index rules, 15 duplicated attributes == drf_properties.h5 == configuration, uuid/sequence/"
              "init_utc per session; drf_properties.h5 is regenerated from every single file (scratch channel with only "
              "that file) and on the full channel (delete, recreate, reader bounds/properties/full read identical)."),
        assumptions=["init_utc_timestamp is compared with floor(start*d/n) exactly (the unchanged tree satisfies this on every explored configuration)",
                     "computer_time is wall-clock and is only required to be present"],
    )
    stage.activate()
    js = jobs(tier)
    rot = core.seed() % max(1, len(js))
    js = js[rot:] + js[:rot]
    for part in core.pmap(rfjobs.run_hist_job, js, chunksize=1):
        chk.merge(part)
    for part in core.pmap(run_default_uuid, ["gapped", "cont"], chunksize=1):
        chk.merge(part)
    return chk.finish()
