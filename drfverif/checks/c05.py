"""C05 - write-once, forward-only recording with atomic rejection.

Histories of valid rf_write/rf_write_blocks calls with one or two invalid calls inserted
at every position; oracle: the invalid call raises, the channel directory is byte-identical
before/after it, all getters are unchanged, and (differential) the history with the
rejected calls deleted yields identical return values, counters, files and read-back.
The same through the public C API under ASan/UBSan.
"""

import os

import numpy as np

from .. import core, rf, rfrun, stage, universe as U
from . import c01

PID = "C05"

INVALID_KINDS = ["past1", "at0", "at_last", "first_offset", "offsets_order", "indices_order", "overlap",
                 "offset_eq_len", "offset_gt_len", "len_mismatch", "blocks_past", "blocks_equal_index", "overlap_late",
                 "indices_order_late", "overlap_early", "negative_first", "negative_w", "first_offset_single"]


def invalid_op(kind, cursor, last_rel):
    """an invalid call relative to the writer's cursor (None if not constructible in this state)"""
    c = cursor
    if kind == "past1":
        return ("w", c - 1, 3) if c >= 1 else None
    if kind == "at0":
        return ("w", 0, 2) if c > 0 else None
    if kind == "at_last":
        return ("w", last_rel, 1) if last_rel is not None else None
    if kind == "first_offset":
        return ("wb", [c + 1, c + 9], [1, 3], 5)
    if kind == "first_offset_single":  # one block whose data offset is not 0
        return ("wb", [c + 4], [2], 5)
    if kind == "offsets_order":
        return ("wb", [c, c + 5, c + 9], [0, 2, 2], 6)
    if kind == "indices_order":
        return ("wb", [c, c + 5, c + 5], [0, 2, 4], 6)
    if kind == "overlap":
        return ("wb", [c + 2, c + 4], [0, 3], 5)
    if kind == "overlap_early":  # second block's index is smaller than its data offset
        return ("wb", [c, c + 2], [0, 3], 5)
    if kind == "overlap_late":  # third block overlaps the second although cumulative offsets stay below cumulative indices
        return ("wb", [c, c + 9, c + 11], [0, 2, 6], 8)
    if kind == "indices_order_late":  # malformed entry far behind the first blocks (beyond the current file)
        return ("wb", [c, c + 12, c + 30, c + 30], [0, 3, 6, 8], 10)
    if kind == "offset_eq_len":
        return ("wb", [c, c + 9], [0, 4], 4)
    if kind == "offset_gt_len":
        return ("wb", [c, c + 9], [0, 6], 4)
    if kind == "len_mismatch":
        return ("wb", [c, c + 9], [0, 2, 3], 5)
    if kind == "blocks_past":
        return ("wb", [c - 1, c + 5], [0, 2], 4) if c >= 1 else None
    if kind == "blocks_equal_index":
        return ("wb", [c, c], [0, 2], 4)
    if kind == "negative_first":  # signed index arrays (lists, int64) with a negative first entry
        return ("wb", [-1, c + 5], [0, 2], 4)
    if kind == "negative_w":
        return ("w", -1, 2)
    raise ValueError(kind)


def variants(valid_ops, kinds=INVALID_KINDS, double=False):
    """all histories obtained by inserting one invalid call (of each kind) at each position"""
    out = []
    cursors = [0]
    lasts = [None]
    for op in valid_ops:
        cursors.append(U.op_end(op))
        lasts.append(U.op_end(op) - 1)
    for pos in range(len(valid_ops) + 1):
        for kind in kinds:
            bad = invalid_op(kind, cursors[pos], lasts[pos])
            if bad is None:
                continue
            h = list(valid_ops[:pos]) + [bad] + list(valid_ops[pos:])
            out.append((h, [pos]))
            if double and pos < len(valid_ops):
                bad2 = invalid_op("past1", cursors[pos + 1], lasts[pos + 1])
                if bad2:
                    h2 = list(valid_ops[:pos]) + [bad] + [valid_ops[pos]] + [bad2] + list(valid_ops[pos + 1:])
                    out.append((h2, [pos, pos + 2]))
    return out


def base_histories(tier):
    w = [("w", 0, L) for L in (1, 3, 9)]
    seqs = U.write_seqs(2 if tier == "quick" else 3, U.L_RED, U.G_RED)
    blocks = U.block_layouts(2, lens=(1, 3), gaps=(1, 9), first=(0, 2))
    hs = [s for s in seqs] + [[b] for b in blocks] + [[("w", 0, 3), U.shift_op(b, 3)] for b in blocks[::2]]
    # create a file, append several blocks to it in one call, then write forward into the same file again
    # (with 26-sample files all three calls share one file and one index dataset)
    for b in blocks[::2]:
        sb = U.shift_op(b, 3)
        hs.append([("w", 0, 3), sb, ("w", U.op_end(sb) + 1, 2)])
    return hs


def jobs(tier):
    out = []
    rates = U.LAYOUT_RATES[:4] if tier == "quick" else U.LAYOUT_RATES
    modes = ("gapped", "cont", "gapped+gz9+cks") if tier == "quick" else tuple(U.MODES)
    bases = base_histories(tier)
    bases2 = base_histories("quick")
    ci = 0
    for (n, d, fc, sc) in rates:
        starts = U.start_positions(n, d, fc, sc, U.EPOCHS[1:2] if tier == "quick" else U.EPOCHS[:2])
        for mode in modes:
            sel = [starts[ci % len(starts)]] if tier == "quick" else [starts[ci % len(starts)], starts[(ci + 5) % len(starts)]]
            ci += 1
            for si, (k0, label) in enumerate(sel):
                cfg = dict(c01._cfg(n, d, fc, sc, k0, mode))
                # thorough: depth-3 base histories for the first rate in the two base modes, depth 2 elsewhere
                deep = tier != "quick" and (n, d) == (10, 3) and mode in ("gapped", "cont")
                bs = bases if (tier == "quick" or deep) else bases2
                for i in range(0, len(bs), 6):
                    out.append(("py", cfg, bs[i:i + 6], "%d/%d %s %s" % (n, d, mode, label)))
    # C API (no Python validation in front of the C checks)
    capi_bases = [b for b in bases if len(b) <= 2][:: (3 if tier == "quick" else 1)]
    for ri, (n, d, fc, sc) in enumerate(rates[:3]):
        starts = U.start_positions(n, d, fc, sc, U.EPOCHS[1:2])
        for mi, mode in enumerate(("gapped", "cont")):
            k0, label = starts[(ri + mi + 1) % len(starts)]
            cfg = dict(c01._cfg(n, d, fc, sc, k0, mode))
            hb = [h for h in capi_bases if not (mode == "cont" and any(o[0] == "wb" for o in h))]
            for i in range(0, len(hb), 4):
                out.append(("capi", cfg, hb[i:i + 4], "C-API %d/%d %s %s" % (n, d, mode, label)))
    return out


def snapshot(run, top):
    """comparable end state of a channel: file list, per-file index + raw data bytes, full read"""
    import h5py

    out = {}
    for rel in rf.list_tree(run.chdir):
        if "/rf@" in rel or "/tmp.rf@" in rel:
            with h5py.File(os.path.join(run.chdir, rel), "r") as f:
                out[rel] = (f["rf_data_index"][...].tolist(), f["rf_data"][...].tobytes())
        else:
            out[rel] = None
    return out


def check_py_history(cfg, base, hist, bad_positions, seed, base_result):
    """returns list of (key, detail)"""
    errs = []
    top = core.new_scratch()
    try:
        run = rfrun.execute(cfg, hist, seed, top, snapshot_rejects=True)
        errs += run.errors
        valid_recs = []
        for i, rec in enumerate(run.records):
            if i in bad_positions:
                if rec["status"] != "exc":
                    continue  # reported through run.errors (invalid_write_accepted)
                if rec.get("dir_unchanged") is False:
                    errs.append(({"class": "rejected_call_changed_files", "reason": rec["expect_reject"]},
                                 "op %d %r" % (i, rec["op"])))
                if rec["getters"] != rec["getters_before"]:
                    errs.append(({"class": "rejected_call_changed_getters", "reason": rec["expect_reject"]},
                                 "op %d %r: %r -> %r" % (i, rec["op"], rec["getters_before"], rec["getters"])))
            else:
                valid_recs.append((rec["status"], rec.get("ret"), rec["getters"][:3]))
        snap = snapshot(run, top)
        b_recs, b_snap = base_result
        if valid_recs != b_recs:
            errs.append(({"class": "differential_returns"}, "with rejected calls %r, without %r" % (valid_recs, b_recs)))
        if snap != b_snap:
            diff = [k for k in set(snap) | set(b_snap) if snap.get(k) != b_snap.get(k)]
            errs.append(({"class": "differential_files"}, "files differing from the history without rejected calls: %s" % diff[:5]))
        errs += rfrun.oracle_layout(run)
    finally:
        core.rm(top)
    return errs, run


def run_base(cfg, base, seed):
    import digital_rf as drf

    top = core.new_scratch()
    try:
        run = rfrun.execute(cfg, base, seed, top)
        recs = [(r["status"], r.get("ret"), r["getters"][:3]) for r in run.records]
        snap = snapshot(run, top)
        errs = list(run.errors)
        reader = drf.DigitalRFReader(top)
        e2, _ = rfrun.oracle_roundtrip(run, reader, "full")
        reader.close()
        errs += e2
        return (recs, snap), errs
    finally:
        core.rm(top)


def run_job(job):
    seed = core.seed()
    part = core.new_part()
    kind, cfgd, bases, label = job
    cfg = rf.Cfg(**cfgd)
    for base in bases:
        base = [tuple(o) for o in base]
        if kind == "py":
            base_result, errs = run_base(cfg, base, seed)
            for key, detail in errs:
                part["violations"].append(core.Violation(key, {"cfg": cfgd, "ops": base, "bad": [], "seed": seed, "via": "py"}, detail))
            part["evaluations"] += 1
            for hist, bad in variants(base, double=True):
                errs, run = check_py_history(cfg, base, hist, bad, seed, base_result)
                part["evaluations"] += 1
                part["traces"] += 1
                part["transitions"] += len(hist)
                sig = core.canon((cfgd["n"], cfgd["d"], cfgd["cont"], cfgd["comp"], cfgd["start"], hist))
                part["nontrivial"].add(sig)
                part["states"].add(core.canon((cfgd["n"], cfgd["d"], cfgd["cont"], cfgd["start"], sorted(run.model.written))))
                for i in bad:
                    part["outcomes"]["%s:%s" % (run.records[i].get("expect_reject"), run.records[i].get("exc", "ACCEPTED"))] += 1
                case = {"cfg": cfgd, "ops": hist, "base": base, "bad": bad, "seed": seed, "via": "py"}
                for key, detail in errs:
                    part["violations"].append(core.Violation(key, case, detail))
                if not part["samples"]:
                    part["samples"].append({"label": label, "history": hist, "invalid_positions": bad})
        else:
            capi_kinds = [k for k in INVALID_KINDS if k not in ("len_mismatch", "negative_first", "negative_w")]
            for hist, bad in variants(base, kinds=capi_kinds):
                errs = check_capi_history(cfg, hist, bad, seed)
                part["evaluations"] += 1
                part["traces"] += 1
                part["transitions"] += len(hist)
                part["nontrivial"].add(core.canon(("capi", cfgd["n"], cfgd["d"], cfgd["cont"], cfgd["start"], hist)))
                part["outcomes"]["capi"] += 1
                case = {"cfg": cfgd, "ops": hist, "bad": bad, "seed": seed, "via": "capi"}
                for key, detail in errs:
                    part["violations"].append(core.Violation(key, case, detail))
            # NULL data pointer
    return part


def check_capi_history(cfg, hist, bad, seed):
    import digital_rf as drf

    errs = []
    top = core.new_scratch()
    try:
        model, expect, res, p = c01.run_capi(cfg, hist, seed, top)
        if p.returncode != 0 or "ERROR: AddressSanitizer" in p.stderr or "runtime error" in p.stderr:
            return [({"class": "capi_driver_failed"}, {"rc": p.returncode, "stderr": p.stderr[-1500:]})]
        if len(res) != len(hist):
            return [({"class": "capi_driver_output"}, p.stdout[-500:])]
        for i, ((reason, cur), (rc, before, after, hf)) in enumerate(zip(expect, res)):
            if reason is not None:
                if rc == 0:
                    errs.append(({"class": "invalid_write_accepted", "reason": reason, "via": "capi"}, "op %d %r rc=0" % (i, hist[i])))
                elif after != before:
                    errs.append(({"class": "rejected_call_moved_cursor", "reason": reason, "via": "capi"},
                                 "op %d %r global_index %d -> %d" % (i, hist[i], before, after)))
                elif hf:
                    errs.append(({"class": "rejected_call_set_failure", "reason": reason, "via": "capi"}, "op %d %r" % (i, hist[i])))
            else:
                if rc != 0 or after != cur:
                    errs.append(({"class": "valid_write_after_reject", "via": "capi"},
                                 "op %d %r rc=%d index %d->%d expected %d" % (i, hist[i], rc, before, after, cur)))
        if errs:
            return errs
        run = rfrun.Run()
        run.model, run.cfg, run.top, run.chdir = model, cfg, top, os.path.join(top, cfg["ch"])
        if model.written:
            reader = drf.DigitalRFReader(top)
            e2, _ = rfrun.oracle_roundtrip(run, reader, "full")
            reader.close()
            errs += [(dict(k, via="capi"), d) for k, d in e2]
        errs += [(dict(k, via="capi"), d) for k, d in rfrun.oracle_layout(run)]
    finally:
        core.rm(top)
    return errs


def replay(case):
    cfg = rf.Cfg(**case["cfg"])
    hist = [tuple(o) for o in case["ops"]]
    if case.get("via") == "capi":
        return check_capi_history(cfg, hist, case["bad"], case["seed"])
    base = [tuple(o) for o in case.get("base", hist)]
    base_result, errs = run_base(cfg, base, case["seed"])
    if case["bad"]:
        e2, _ = check_py_history(cfg, base, hist, case["bad"], case["seed"], base_result)
        errs += e2
    return errs


def main(tier):
    chk = core.Check(
        PID, tier, "model_checking",
        rule=("base histories = all rf_write sequences up to depth %d over L in {1,3,9}, G in {0,2,9} plus 2-block "
              "layouts; for each base history one invalid call of each of %d kinds (write before cursor / at 0 / at the "
              "last written index; blocks with first offset != 0, non-increasing offsets, non-increasing indices, overlap, "
              "offset == / > len, length mismatch, first index < cursor, equal indices) is inserted at every position "
              "(and a second one after the next valid call); every variant runs on the staged writer with a byte-level "
              "directory digest around each rejected call and is compared with the base history (differential). The "
              "same through the C API driver under ASan/UBSan. distinct_nontrivial = distinct (config, history).")
        % (2 if tier == "quick" else 3, len(INVALID_KINDS)),
        assumptions=["zero-length writes are outside the stated quantifier and are not generated",
                     "the private extension module called directly is not part of the claim"],
    )
    stage.activate()
    js = jobs(tier)
    rot = core.seed() % max(1, len(js))
    js = js[rot:] + js[:rot]
    for part in core.pmap(run_job, js, chunksize=1):
        chk.merge(part)
    return chk.finish()
