"""C07 - continuous-mode gap fill semantics (complete over the type universe)."""

import os

import numpy as np

from .. import core, rf, rfrun, stage, universe as U

PID = "C07"


def jobs(tier):
    out = []
    n, d, fc, sc = 10, 3, 1000, 2
    start = rf.first_sample_of_ms(1394333998000 // 2000 * 2000, n, d)
    nsubs = (1, 2) if tier == "quick" else (1, 2, 3)
    extra_rates = [(200, 3, 400, 2)] if tier == "quick" else [(200, 3, 400, 2), (7, 2, 1000, 3), (2, 3, 2000, 4)]
    for kind, size in U.TYPE_KINDS:
        for order in ("<", ">"):
            for cplx in (False, True):
                for nsub in nsubs:
                    for (n_, d_, fc_, sc_) in [(n, d, fc, sc)] + extra_rates:
                        st = start if (n_, d_) == (n, d) else rf.first_sample_of_ms(1394333998000 // (sc_ * 1000) * (sc_ * 1000), n_, d_)
                        if (n_, d_) == (200, 3) and tier == "quick" and (nsub != 1 or order == ">"):
                            continue
                        out.append(dict(kind=kind, size=size, order=order, cplx=cplx, nsub=nsub, n=n_, d=d_, fc=fc_, sc=sc_, start=st))
                        if (kind, size) in (("i", 2), ("f", 4)) and nsub == 1:
                            # recording that starts on the second / third slot of its first file
                            out.append(dict(kind=kind, size=size, order=order, cplx=cplx, nsub=nsub, n=n_, d=d_, fc=fc_, sc=sc_, start=st + 1 + (size // 4)))
    return out


def raw_files(chdir):
    import h5py

    out = {}
    for rel in rf.list_tree(chdir):
        if "/rf@" in rel:
            with h5py.File(os.path.join(chdir, rel), "r") as f:
                out[rel] = (f["rf_data_index"][...].tolist(), f["rf_data"][...].tobytes(), f["rf_data"].shape[0])
    return out


def run_job(base):
    import digital_rf as drf

    seed = core.seed()
    part = core.new_part()
    layouts = dict(U.GAP_LAYOUTS)
    if base["n"] == 200:
        # files of 26-27 slots: several writes with gaps between them inside one open file
        layouts = {"two_gaps_in_one_file": [("w", 0, 2), ("w", 4, 2), ("w", 9, 3)],
                   "three_gaps_then_rollover": [("w", 1, 1), ("w", 3, 2), ("w", 8, 1), ("w", 12, 20)]}
    for lname, ops in layouts.items():
        results = {}
        for mode in ("gapped", "cont", "cont+cks", "cont+gz1"):
            cfg = rf.Cfg(**base, **U.MODES[mode])
            if mode != "gapped" and any(o[0] == "wb" for o in ops) is False:
                pass
            top = core.new_scratch()
            case = {"cfg": dict(cfg), "ops": ops, "seed": seed, "layout": lname}
            try:
                run = rfrun.execute(cfg, ops, seed, top)
                part["evaluations"] += 1
                part["traces"] += 1
                part["transitions"] += len(ops)
                part["nontrivial"].add(core.canon((base, lname, mode)))
                part["states"].add(core.canon((base["kind"], base["size"], base["order"], base["cplx"], base["nsub"], mode,
                                               sorted(run.model.written))))
                for key, detail in run.errors:
                    part["violations"].append(core.Violation(key, case, detail))
                raws = raw_files(run.chdir)
                results[mode] = raws
                reader = drf.DigitalRFReader(top)
                errs = []
                if mode == "cont":
                    errs += cont_oracle(run, reader, raws)
                e2, _ = rfrun.oracle_roundtrip(run, reader, "full")
                errs += [(dict(k, **({"class": "fill_value"} if "fill expected" in dd else {})), dd) for k, dd in e2]
                reader.close()
                for key, detail in errs:
                    part["violations"].append(core.Violation(key, case, detail))
                part["outcomes"]["%s files=%d" % (mode, len(raws))] += 1
            finally:
                core.rm(top)
        # compression / checksum: continuous mode stores gaps exactly as gapped mode does
        g = results.get("gapped")
        for mode in ("cont+cks", "cont+gz1"):
            r = results.get(mode)
            if g is None or r is None:
                continue
            if r != g:
                diff = [k for k in set(r) | set(g) if r.get(k) != g.get(k)]
                part["violations"].append(core.Violation(
                    {"class": "chunked_continuous_differs_from_gapped", "mode": mode},
                    {"cfg": dict(rf.Cfg(**base, **U.MODES[mode])), "ops": ops, "seed": seed, "layout": lname},
                    "files differing in index/data from gapped mode: %s" % diff[:4]))
    if not part["samples"]:
        part["samples"].append({"type": base, "layouts": list(U.GAP_LAYOUTS)})
    return part


def cont_oracle(run, reader, raws):
    cfg, model = run.cfg, run.model
    errs = []
    exp_files = model.files(cfg)
    if sorted(raws) != sorted(exp_files):
        errs.append(({"class": "file_exists_iff_written"}, "on disk %s, model %s" % (sorted(raws), sorted(exp_files))))
        return errs
    rowsize = cfg.sample_dtype().itemsize * cfg["nsub"]
    for rel, (idx, data, nrows) in raws.items():
        base = os.path.basename(rel)
        S, mmm = base[3:-3].split(".")
        fms = int(S) * 1000 + int(mmm)
        lo, hi = rf.file_window(fms, cfg)
        if idx != [[lo, 0]] or nrows != hi - lo:
            errs.append(({"class": "continuous_file_not_single_full_block"},
                         "%s index %s rows %d, window [%d,%d)" % (rel, idx, nrows, lo, hi)))
            continue
        for j, k in enumerate(range(lo, hi)):
            row = data[j * rowsize:(j + 1) * rowsize]
            if k in model.written:
                if row != model.written[k]:
                    errs.append(({"class": "continuous_written_value"}, "%s index %d" % (rel, k)))
            elif not rf.rows_equal_fill(cfg, row):
                errs.append(({"class": "fill_value"}, "%s index %d never written, raw bytes %s (type %s%d%s %s)" % (
                    rel, k, row.hex(), cfg["kind"], cfg["size"], cfg["order"], "complex" if cfg["cplx"] else "real")))
                break
        # the file read on its own is exactly one block
        got = rf.read_runs(reader, cfg["ch"], lo, hi - 1)
        if [(k, len(v)) for k, v in got] != [(lo, hi - lo)]:
            errs.append(({"class": "continuous_file_read_not_single_block"}, "%s read -> %s" % (rel, [(k, len(v)) for k, v in got])))
    return errs


def replay(case):
    base = {k: case["cfg"][k] for k in ("kind", "size", "order", "cplx", "nsub", "n", "d", "fc", "sc", "start")}
    os.environ["VERIF_SEED"] = str(case.get("seed", 0))
    part = run_job(base)
    return [(v["key"], v["detail"]) for v in part["violations"] if v["case"].get("layout") == case.get("layout")]


def main(tier):
    chk = core.Check(
        PID, tier, "model_checking",
        rule=("complete product: 10 scalar kinds x 2 byte orders x real/complex x subchannel counts x 6 gap layouts "
              "(no gap, gap inside a file, at the head of the first file, at the tail of the last file, spanning whole "
              "files, multi-block call) x {gapped, continuous, continuous+checksum, continuous+gzip}; raw rf_data of every "
              "continuous file decoded in the file's own byte order; chunked-continuous files compared byte-for-byte "
              "(index + data) with gapped mode for the same calls."),
        assumptions=["a slot counts as missing when every component is NaN (any payload), the most negative value, or 0"],
    )
    stage.activate()
    js = jobs(tier)
    rot = core.seed() % max(1, len(js))
    js = js[rot:] + js[:rot]
    for part in core.pmap(run_job, js, chunksize=1):
        chk.merge(part)
    return chk.finish()
