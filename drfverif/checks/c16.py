"""C16 - ringbuffer deletes only what it must, oldest first, with exact accounting.

Explicit-state BFS over the real handler on real files.  A state is
(files on disk with sizes, tracked records with recorded sizes, per-group queue order,
active_size); the handler has no other mutable state and handles each event
synchronously under one lock, so equal canonical states have equal futures.  States are
restored into a fresh handler (and the scratch tree) for every transition; restored states
are cross-checked against full replays of the event history from an empty ringbuffer.
"""

import collections
import itertools
import os

from .. import core, stage, trees as T

PID = "C16"

SD = T.subdir_name(T.T0)
# universe: (id, channel relpath, file name, key ms, base size)
FILES = [
    ("A1", "chA", "rf@%d.000.h5" % (T.T0 + 0), (T.T0 + 0) * 1000, 100),
    ("A2", "chA", "rf@%d.000.h5" % (T.T0 + 2), (T.T0 + 2) * 1000, 170),
    ("A3", "chA", "rf@%d.000.h5" % (T.T0 + 5), (T.T0 + 5) * 1000, 130),
    ("B1", "chB/metadata", "metadata@%d.h5" % (T.T0 + 0), (T.T0 + 0) * 1000, 60),
    ("B2", "chB/metadata", "metadata@%d.h5" % (T.T0 + 3), (T.T0 + 3) * 1000, 90),
]
GROW = {"A2": 40, "B1": 25}
BASE_FILES = list(FILES)
FID = {f[0]: f for f in FILES}
SPACING = 2000
SD_OTHER = T.subdir_name(T.T0 + 3600)
SUBDIR_OF = {}


def variant_of(cfg):
    return cfg[3] if len(cfg) > 3 else None


def set_universe(cfg):
    """Variants of the small universe (each configuration is explored in its own process):
    'dupkey' - A3 carries the same time stamp (and name) as A2 but lives in another subdirectory of the channel,
               as after a re-filing or a restart with another subdirectory cadence;
    'nodrf'  - the handler is built with include_drf=False (metadata-only ring buffer)."""
    FILES[:] = BASE_FILES
    SUBDIR_OF.clear()
    if variant_of(cfg) == "dupkey":
        a2 = [f for f in BASE_FILES if f[0] == "A2"][0]
        FILES[2] = ("A3", "chA", a2[2], a2[3], 130)
        SUBDIR_OF["A3"] = SD_OTHER
    FID.clear()
    FID.update({f[0]: f for f in FILES})


def watched(cfg, fid):
    """is this file of a kind the handler was asked to manage?"""
    return not (variant_of(cfg) == "nodrf" and FID[fid][1] == "chA")


def fpath(top, fid, tmp=False):
    _, ch, name, _, _ = FID[fid]
    return os.path.join(top, ch, SUBDIR_OF.get(fid, SD), ("tmp." if tmp else "") + name)


def protected_files(top):
    return [os.path.join(top, "chA", "drf_properties.h5"), os.path.join(top, "chB", "metadata", "dmd_properties.h5"),
            os.path.join(top, "chA", SD, "tmp.rf@%d.000.h5" % (T.T0 + 9)),
            os.path.join(top, "chB", "metadata", SD, "tmp.metadata@%d.h5" % (T.T0 + 9)),
            os.path.join(top, "outside.txt")]


def configs(tier):
    sizes_max = {"chA": max(f[4] + GROW.get(f[0], 0) for f in FILES if f[1] == "chA"),
                 "chB": max(f[4] + GROW.get(f[0], 0) for f in FILES if f[1] != "chA")}
    minsize = sum(sizes_max.values())
    allsize = sum(f[4] + GROW.get(f[0], 0) for f in FILES)
    out = []
    for size in (None, minsize, allsize - 1, allsize):
        for count in (None, 1, 2):
            for duration in (None, SPACING, 5000):
                if size is None and count is None and duration is None:
                    continue
                out.append((size, count, duration))
    if tier == "quick":
        keep = [(minsize, None, None), (allsize - 1, None, None), (None, 1, None), (None, 2, None), (None, None, SPACING),
                (minsize, 2, None), (allsize - 1, None, SPACING), (minsize, 1, SPACING), (None, 2, 5000), (allsize, 2, 5000),
                (allsize, None, None), (minsize, 2, SPACING)]
        out = [c for c in out if c in keep]
    # a zero duration is a legal limit ("keep only the newest time stamp of each channel and kind")
    out += [(None, None, 0), (allsize, 2, 0)]
    # universe variants (see set_universe)
    out += [(None, 1, None, "nodrf"), (None, None, SPACING, "nodrf"),
            (None, 2, None, "dupkey"), (None, None, SPACING, "dupkey"), (minsize, None, None, "dupkey")]
    return out


def events():
    evs = []
    for fid in FID:
        evs += [("create_real", fid), ("created_dup", fid), ("delete_real", fid), ("deleted_stale", fid), ("vanish", fid),
                ("move_in", fid), ("move_out", fid), ("modified", fid)]
    for fid in GROW:
        evs.append(("grow_modified", fid))
        evs.append(("grow_silent", fid))
    # a tracked file renamed to another matching name of its channel (both names match the grammar)
    for a, b in (("A1", "A2"), ("A2", "A3"), ("A1", "A3"), ("B1", "B2")):
        evs.append(("move_to", a, b))
    # observer restart with the new observer reporting a creation while the verification thread runs
    for fid in FID:
        evs.append(("rescan_race", fid, "after_walk"))
    for fid in ("A2", "B2"):
        evs.append(("rescan_race", fid, "after_remove"))
        evs.append(("rescan_race", fid, "after_add"))
    evs += [("rescan",), ("add_all_sorted",), ("add_all_unsorted",), ("modify_all",), ("remove_untracked_on_disk",)]
    return evs


EMPTY = ((), (), (), 0)


class World:
    """scratch tree + handler restored to a canonical state"""

    def __init__(self, top, cfg):
        self.top = top
        self.cfg = cfg
        set_universe(cfg)
        os.makedirs(os.path.join(top, "chA", SD), exist_ok=True)
        os.makedirs(os.path.join(top, "chA", SD_OTHER), exist_ok=True)
        os.makedirs(os.path.join(top, "chB", "metadata", SD), exist_ok=True)
        for p in protected_files(top):
            os.makedirs(os.path.dirname(p), exist_ok=True)
            with open(p, "w") as f:
                f.write("keep me")
        self.removed = []
        self.rmdirs = []
        self.h = None

    def set_disk(self, disk):
        want = dict(disk)
        for fid in FID:
            p = fpath(self.top, fid)
            if fid in want:
                os.makedirs(os.path.dirname(p), exist_ok=True)
                if not os.path.exists(p) or os.path.getsize(p) != want[fid]:
                    with open(p, "wb") as f:
                        f.write(b"x" * want[fid])
            elif os.path.exists(p):
                os.remove(p)
            tp = fpath(self.top, fid, tmp=True)
            if os.path.exists(tp):
                os.remove(tp)
            jp = p + ".moved"
            if os.path.exists(jp):
                os.remove(jp)
        for p in protected_files(self.top):
            if not os.path.exists(p):
                os.makedirs(os.path.dirname(p), exist_ok=True)
                with open(p, "w") as f:
                    f.write("keep me")
        for ch in ("chA", "chB/metadata"):
            os.makedirs(os.path.join(self.top, ch, SD), exist_ok=True)

    def new_handler(self):
        from digital_rf import ringbuffer

        size, count, duration = self.cfg[:3]
        kw = {"include_drf": False} if variant_of(self.cfg) == "nodrf" else {}
        return ringbuffer.DigitalRFRingbufferHandler(size=size, count=count, duration=duration, verbose=False, dryrun=False, **kw)

    def restore(self, state):
        disk, records, queues, active = state
        self.set_disk(disk)
        h = self.new_handler()
        for fid, sz in records:
            _, ch, name, key, _ = FID[fid]
            p = fpath(self.top, fid)
            grp = (os.path.join(self.top, ch), name.split("@")[0])
            h.records[p] = h.FileRecord(key=key, size=sz, path=p, group=grp)
        for grp_ids in queues:
            for fid in grp_ids:
                _, ch, name, key, _ = FID[fid]
                grp = (os.path.join(self.top, ch), name.split("@")[0])
                h.queues[grp].append((key, fpath(self.top, fid)))
        if self.cfg[0] is not None:
            h.active_size = active
        self.h = h
        return h

    def canon(self):
        h = self.h
        rev = {fpath(self.top, fid): fid for fid in FID}
        disk = tuple(sorted((fid, os.path.getsize(fpath(self.top, fid))) for fid in FID if os.path.exists(fpath(self.top, fid))))
        records = tuple(sorted((rev.get(p, p), r.size) for p, r in h.records.items()))
        queues = tuple(sorted(tuple(rev.get(p, p) for _, p in q) for q in h.queues.values() if len(q)))
        active = h.active_size if self.cfg[0] is not None else 0
        return (disk, records, queues, active)

    # ---- one event on the current handler/disk; returns (deleted paths with tracked-set snapshots, exception)
    def apply(self, ev):
        from watchdog.events import FileCreatedEvent, FileDeletedEvent, FileModifiedEvent, FileMovedEvent

        h = self.h
        top = self.top
        log = []
        real_remove, real_rmdir = os.remove, os.rmdir

        popped = {}

        class RecDict(dict):
            """records dict that remembers the record taken out right before a deletion, so the
            size the handler believed the file to have is known (falls back to disk / pre-state)"""

            def pop(self, key, *a):
                v = dict.pop(self, key, *a)
                if hasattr(v, "size"):
                    popped[key] = v
                return v

        if type(h.records) is dict:
            h.records = RecDict(h.records)

        def remove(p, *a, **k):
            p = os.fspath(p)
            snap = {q: (r.key, r.size, r.group) for q, r in h.records.items()}
            known = popped.get(p).size if p in popped else None
            try:
                disk_size = os.path.getsize(p)
            except OSError:
                disk_size = None
            log.append(("remove", p, snap, known, disk_size))
            return real_remove(p, *a, **k)

        def rmdir(p, *a, **k):
            log.append(("rmdir", os.fspath(p), None, None, None))
            return real_rmdir(p, *a, **k)

        kind = ev[0]
        fid = ev[1] if len(ev) > 1 else None
        p = fpath(top, fid) if fid else None
        newly_reported = []
        reported_only = []
        for f_ in FID:  # (the handler removes emptied subdirectories; the recorder would re-create them)
            os.makedirs(os.path.dirname(fpath(top, f_)), exist_ok=True)
        # ---- disk part (not intercepted)
        if kind == "create_real":
            if not os.path.exists(p):
                with open(p, "wb") as f:
                    f.write(b"x" * FID[fid][4])
        elif kind in ("delete_real", "vanish"):
            if os.path.exists(p):
                os.remove(p)
        elif kind in ("grow_modified", "grow_silent"):
            if os.path.exists(p):
                with open(p, "wb") as f:
                    f.write(b"x" * (FID[fid][4] + GROW[fid]))
        elif kind == "move_in":
            if not os.path.exists(p):
                tp = fpath(top, fid, tmp=True)
                with open(tp, "wb") as f:
                    f.write(b"x" * FID[fid][4])
                os.rename(tp, p)
        elif kind == "move_out":
            if os.path.exists(p):
                os.rename(p, p + ".moved")
        elif kind == "move_to":
            pdst = fpath(top, ev[2])
            if os.path.exists(p) and not os.path.exists(pdst):
                os.rename(p, pdst)
        on_disk_at_dispatch = {fpath(top, f) for f in FID if os.path.exists(fpath(top, f))}
        os.remove, os.rmdir = remove, rmdir
        exc = None
        try:
            if kind in ("create_real", "created_dup"):
                newly_reported = [p]
                h.dispatch(FileCreatedEvent(p))
            elif kind in ("delete_real", "deleted_stale"):
                h.dispatch(FileDeletedEvent(p))
            elif kind in ("grow_modified", "modified"):
                if p not in h.records:
                    newly_reported = [p]  # a modified event for an untracked file reports it
                h.dispatch(FileModifiedEvent(p))
            elif kind == "move_in":
                newly_reported = [p]
                h.dispatch(FileMovedEvent(fpath(top, fid, tmp=True), p))
            elif kind == "move_out":
                h.dispatch(FileMovedEvent(p, p + ".moved"))
            elif kind == "move_to":
                newly_reported = [fpath(top, ev[2])]
                h.dispatch(FileMovedEvent(p, fpath(top, ev[2])))
            elif kind in ("add_all_sorted", "add_all_unsorted"):
                paths = [fpath(top, f) for f in FID if os.path.exists(fpath(top, f))]
                if kind == "add_all_unsorted":
                    paths = list(reversed(paths))
                newly_reported = list(paths)
                h.add_files(paths, sort=(kind == "add_all_sorted"))
            elif kind == "modify_all":
                reported_only = [fpath(top, f) for f in FID if os.path.exists(fpath(top, f))]
                h.modify_files([fpath(top, f) for f in FID if os.path.exists(fpath(top, f))])
            elif kind == "remove_untracked_on_disk":
                h.remove_files([fpath(top, f) for f in FID])
            elif kind in ("rescan", "rescan_race"):
                # the REAL DigitalRFRingbuffer._restart / _verify_ringbuffer_files after an observer restart.
                # The replacement observer is a stub and the verification "thread" is run by the explorer, so the
                # schedule is ours: for ("rescan_race", fid, point) the new observer reports the creation of fid
                # at the named point of the verification thread (end of the directory walk / after remove_files /
                # after add_files); before the walk and after the verification are the sequential histories
                # create;rescan and rescan;create that the alphabet already contains.
                from digital_rf import list_drf, ringbuffer as rbmod

                race = (fpath(top, ev[1]), ev[2]) if kind == "rescan_race" else None
                # situation of the raced file when the restart begins: untracked ("new": the ordinary live case), tracked
                # and on disk ("tracked"), or a stale record whose file is gone and is re-created under the same name
                self.race_kind = None if not race else (
                    "new" if race[0] not in h.records else ("tracked" if os.path.exists(race[0]) else "stale_record_recreated"))
                fired = []

                def fire(point):
                    if race and race[1] == point and not fired:
                        fired.append(point)
                        rp = race[0]
                        if not os.path.exists(rp):
                            real_makedirs(os.path.dirname(rp), exist_ok=True)
                            with open(rp, "wb") as f_:
                                f_.write(b"x" * FID[ev[1]][4])
                        on_disk_at_dispatch.add(rp)
                        h.dispatch(FileCreatedEvent(rp))

                real_makedirs = os.makedirs
                rb = object.__new__(rbmod.DigitalRFRingbuffer)
                rb.path, rb.starttime, rb.endtime = top, None, None
                rb.include_drf, rb.include_dmd = variant_of(self.cfg) != "nodrf", True
                rb.event_handler = h
                rb._task_threads = []

                class _Obs:
                    def start(self_):
                        pass

                rb._init_observer = lambda: setattr(rb, "observer", _Obs())
                pending = []

                class _Thread:
                    def __init__(self_, target=None, args=(), kwargs=None, **kw):
                        self_.body = (target, args, kwargs or {})
                        self_.daemon = False

                    def start(self_):
                        pending.append(self_.body)

                    def is_alive(self_):
                        return False

                    def join(self_, *a):
                        pass

                real_ilsdrf = list_drf.ilsdrf
                walked = []

                def ilsdrf(*a, **k):
                    for x in real_ilsdrf(*a, **k):
                        walked.append(x)
                        yield x
                    fire("after_walk")

                real_thread = rbmod.threading.Thread
                real_rm, real_add = h.remove_files, h.add_files

                def rm_files(*a, **k):
                    r_ = real_rm(*a, **k)
                    fire("after_remove")
                    return r_

                def add_files(*a, **k):
                    r_ = real_add(*a, **k)
                    fire("after_add")
                    return r_

                rbmod.threading.Thread = _Thread
                list_drf.ilsdrf = ilsdrf
                h.remove_files, h.add_files = rm_files, add_files
                try:
                    rb._restart()
                    for tgt, a_, k_ in pending:
                        tgt(*a_, **k_)
                finally:
                    rbmod.threading.Thread = real_thread
                    list_drf.ilsdrf = real_ilsdrf
                    del h.remove_files, h.add_files
                if len(pending) != 1 or (race and not fired):
                    raise core.HarnessError("restart harness: %d verification threads, race fired %r" % (len(pending), fired))
                # (the trailing modify_files may legitimately leave the size limit exceeded until the
                # next report, so the "limits hold again" clause is not evaluated for a re-scan)
                reported_only = sorted(set(walked) | ({race[0]} if race else set()))
                if race:
                    newly_reported = [race[0]]
        except Exception as e:  # noqa: BLE001
            exc = e
        finally:
            os.remove, os.rmdir = real_remove, real_rmdir
        # an event for a file that is not on disk is dropped by the handler: it reports nothing
        newly_reported = [q for q in newly_reported if q in on_disk_at_dispatch]
        self.reported = set(newly_reported) | set(q for q in reported_only if q in on_disk_at_dispatch)
        # paths the current event itself declares gone (source of a move): they do not count as tracked
        # files when a deletion in this same event is judged
        self.gone_by_event = {p} if kind in ("move_to", "move_out") and p else set()
        return log, exc, newly_reported


def limits_exceeded(cfg, tracked):
    """tracked: dict path -> (key, size, group).  Returns list of exceeded limit names."""
    size, count, duration = cfg[:3]
    out = []
    groups = collections.defaultdict(list)
    for p, (key, sz, grp) in tracked.items():
        groups[grp].append(key)
    if size is not None and sum(v[1] for v in tracked.values()) > size:
        out.append("size")
    if count is not None and any(len(v) > count for v in groups.values()):
        out.append("count")
    if duration is not None and any(max(v) - min(v) > duration for v in groups.values()):
        out.append("duration")
    return out


def check_transition(world, cfg, pre, ev, log, exc, newly, post):
    errs = []
    top = world.top
    h = world.h
    if exc is not None:
        errs.append(({"class": "handler_raised", "exc": type(exc).__name__, "event": ev[0]}, "event %r raised %r" % (ev, exc)))
        return errs
    valid_paths = {fpath(top, fid) for fid in FID}
    for op, p, tracked, known_size, disk_size in log:
        if op == "rmdir":
            if not os.path.abspath(p).startswith(top + os.sep):
                errs.append(({"class": "rmdir_outside_tree"}, p))
            continue
        if p not in valid_paths:
            errs.append(({"class": "deleted_untracked_or_protected_file"}, "os.remove(%s)" % os.path.relpath(p, top)))
            continue
        before = dict(tracked)
        # the record was popped before os.remove: it belongs to the tracked set being judged
        fid = [f for f in FID if fpath(top, f) == p][0]
        if p not in before:
            # reconstruct from the pre-state (recorded size) or the file on disk
            recs = dict(pre[1])
            if fid not in recs and p not in newly and p not in getattr(world, "reported", ()):
                errs.append(({"class": "deleted_file_not_tracked", "event": ev[0]}, "%s deleted but was never reported" % fid))
                continue
        key = FID[fid][3]
        grp_keys = [k for q, (k, s, g) in tracked.items() if g[0] == os.path.join(top, FID[fid][1])]
        if any(k < key for k in grp_keys):
            errs.append(({"class": "deleted_newer_than_kept", "event": ev[0]}, "%s deleted while an older file of its channel is kept" % fid))
        full = {q: v for q, v in tracked.items() if q not in getattr(world, "gone_by_event", ())}
        sz = known_size
        if sz is None:
            # the handler's own record was not observable: be lenient, take the larger of the
            # previously recorded size and the size on disk at deletion time
            sz = max(dict(pre[1]).get(fid) or 0, disk_size or 0)
        full[p] = (key, sz, (os.path.join(top, FID[fid][1]), FID[fid][2].split("@")[0]))
        if not limits_exceeded(cfg, full):
            errs.append(({"class": "deleted_without_exceeded_limit", "event": ev[0]},
                         "%s deleted although no configured limit %r was exceeded by the tracked set %s" % (
                             fid, cfg, sorted(os.path.basename(q) for q in full))))
    # the source of a deletion / move-away event is not tracked afterwards
    if ev[0] in ("delete_real", "deleted_stale", "move_out", "move_to"):
        src = fpath(top, ev[1])
        if src in h.records:
            errs.append(({"class": "deleted_or_moved_path_still_tracked", "event": ev[0]},
                         "after %r the path %s is still in the tracked set" % (ev, os.path.basename(src))))
    # protected files must survive
    for p in protected_files(top):
        if not os.path.exists(p):
            errs.append(({"class": "protected_file_deleted"}, os.path.relpath(p, top)))
    # bookkeeping invariants on the post state
    recs = h.records
    # every tracked path is a path below the watched directory as it was given, and no file is tracked under two names
    outside = [p for p in recs if not os.path.abspath(p).startswith(top + os.sep)]
    if outside:
        errs.append(({"class": "tracked_path_outside_watch_path", "event": ev[0]}, "after %r: tracked %s, watched directory %s" % (ev, outside[:2], top)))
    if len({os.path.realpath(p) for p in recs}) != len(recs):
        errs.append(({"class": "file_tracked_twice", "event": ev[0]}, "after %r: %d tracked paths for %d files" % (ev, len(recs), len({os.path.realpath(p) for p in recs}))))
    qpaths = [p for q in h.queues.values() for _, p in q]
    if sorted(qpaths) != sorted(recs):
        errs.append(({"class": "records_queues_mismatch", "event": ev[0]}, "records %s queues %s" % (
            sorted(os.path.basename(p) for p in recs), sorted(os.path.basename(p) for p in qpaths))))
    for grp, q in h.queues.items():
        keys = [k for k, _ in q]
        if keys != sorted(keys):
            errs.append(({"class": "queue_not_sorted", "event": ev[0]}, "%s: %s" % (grp, keys)))
        for k, p in q:
            if p in recs and recs[p].group != grp:
                errs.append(({"class": "queue_group_mismatch"}, p))
    if cfg[0] is not None:
        true = sum(r.size for r in recs.values())
        if h.active_size != true:
            errs.append(({"class": "active_size_wrong", "event": ev[0]},
                         "after %r: active_size %d, sum of tracked sizes %d" % (ev, h.active_size, true)))
    # a report only counts when the file could be taken in (an event for a file that is not on
    # disk any more is dropped by the handler and triggers no expiry)
    removed_now = {l[1] for l in log if l[0] == "remove"}
    rev = {fpath(top, f): f for f in FID}
    for p in newly:
        if p in rev and watched(cfg, rev[p]) and os.path.exists(p) and p not in recs and not errs:
            errs.append((dict({"class": "reported_file_on_disk_not_tracked", "event": ev[0]},
                              **({"raced_file": world.race_kind} if ev[0] == "rescan_race" else {})),
                         "after %r: %s was reported, is on disk and of a watched kind, but is not in the tracked set" % (ev, rev[p])))
        if p in rev and not watched(cfg, rev[p]) and p in recs:
            errs.append(({"class": "unwatched_kind_tracked", "event": ev[0]}, "%s tracked although its kind is excluded" % rev[p]))
    newly = [p for p in newly if p in recs or p in removed_now]
    # (a re-scan ends with modify_files, see above: the clause is not evaluated for the raced re-scan either)
    if newly and not errs and ev[0] != "rescan_race":
        tracked = {p: (r.key, r.size, r.group) for p, r in recs.items()}
        ex = limits_exceeded(cfg, tracked)
        if ex:
            errs.append(({"class": "limit_not_restored", "limit": ex[0], "event": ev[0]},
                         "after handling %r limits %s still exceeded by tracked set %s" % (ev, ex, sorted(os.path.basename(p) for p in tracked))))
    return errs


def linked_top(scratch):
    """the watched directory is reached through a symbolic link (/data -> /mnt/disk1/data): the handler, the events
    and the re-scan are all given the link path"""
    real = os.path.join(scratch, "mnt", "disk1", "data")
    os.makedirs(real)
    link = os.path.join(scratch, "data")
    os.symlink(real, link)
    return link


def explore(args):
    cfg, max_states, max_depth = args
    part = core.new_part()
    scratch = core.new_scratch()
    top = linked_top(scratch)
    world = World(top, cfg)
    evs = events()
    seen = {EMPTY: None}
    parent = {EMPTY: None}
    depth = {EMPTY: 0}
    frontier = collections.deque([EMPTY])
    capped = False
    nviol = 0
    try:
        while frontier:
            st = frontier.popleft()
            if depth[st] >= max_depth:
                capped = True
                continue
            for ev in evs:
                world.restore(st)
                log, exc, newly = world.apply(ev)
                post = world.canon()
                part["transitions"] += 1
                part["evaluations"] += 1
                errs = check_transition(world, cfg, st, ev, log, exc, newly, post)
                if log:
                    part["outcomes"]["deleted=%d" % sum(1 for l in log if l[0] == "remove")] += 1
                else:
                    part["outcomes"]["no_delete"] += 1
                if errs and nviol < 6:
                    hist = []
                    s_ = st
                    while parent[s_] is not None:
                        s_, e_ = parent[s_]
                        hist.append(e_)
                    hist = list(reversed(hist)) + [ev]
                    for key, detail in errs[:2]:
                        nviol += 1
                        part["violations"].append(core.Violation(dict(key, config=list(cfg)) if False else key,
                                                                 {"config": list(cfg), "history": hist}, detail))
                if exc is not None:
                    continue
                if any(k.get("class") == "tracked_path_outside_watch_path" for k, _ in errs):
                    continue  # a state outside the small universe cannot be restored: reported, not explored further
                if post not in seen:
                    if len(seen) >= max_states:
                        capped = True
                        continue
                    seen[post] = True
                    parent[post] = (st, ev)
                    depth[post] = depth[st] + 1
                    frontier.append(post)
        # ---- conformance: replay histories from an empty ringbuffer and compare with the restored states
        states = list(seen)
        sample = [s for s in states if depth[s] <= 3] + states[-40:]
        for s in sample:
            hist = []
            s_ = s
            while parent[s_] is not None:
                s_, e_ = parent[s_]
                hist.append(e_)
            hist.reverse()
            world.restore(EMPTY)
            ok = True
            for e_ in hist:
                _, exc, _ = world.apply(e_)
                if exc is not None:
                    ok = False
                    break
            part["traces"] += 1
            if ok and world.canon() != s:
                part["violations"].append(core.Violation({"class": "harness_restore_mismatch"}, {"config": list(cfg), "history": hist},
                                                         "replay from empty gives %r, restored search state %r" % (world.canon(), s)))
        part["states"].update(core.canon((cfg, s)) for s in states)
        part["nontrivial"].update(core.canon((cfg, s)) for s in states)
        part["extra"]["capped_configs"] = 1 if capped else 0
        part["extra"]["closed_configs"] = 0 if capped else 1
        part["extra"]["max_depth_reached"] = max(depth.values())
        if not part["samples"]:
            part["samples"].append({"config": list(cfg), "states": len(states), "closed": not capped,
                                    "example_state": states[len(states) // 2]})
    finally:
        core.rm(scratch)
    return part


def replay(case):
    cfg = tuple(case["config"])
    scratch = core.new_scratch()
    top = linked_top(scratch)
    out = []
    try:
        world = World(top, cfg)
        world.restore(EMPTY)
        for ev in case["history"]:
            ev = tuple(ev)
            pre = world.canon()
            log, exc, newly = world.apply(ev)
            post = world.canon()
            out += check_transition(world, cfg, pre, ev, log, exc, newly, post)
            if exc is not None:
                break
    finally:
        core.rm(scratch)
    return out


def main(tier):
    max_states, max_depth = (5000, 7) if tier == "quick" else (12000, 10)
    chk = core.Check(
        PID, tier, "model_checking",
        rule=("explicit-state BFS over the real DigitalRFRingbufferHandler on real files: 2 channels (RF chA with 3 files, metadata "
              "chB/metadata with 2 files, distinct sizes) plus a properties file and a tmp. file per channel that must survive; "
              "events per file {created with/without the file appearing, deleted with/without the file disappearing, vanish "
              "without event, tmp->final move, move to a non-matching name, rename to another matching name, modified, grow+modified, silent grow} and batch "
              "{re-scan as after an observer restart, add_files sorted/unsorted, modify_files, remove_files}; limit configurations "
              "size in {None, sum of largest per channel, all-1, all} x count in {None,1,2} x duration in {None, one spacing, all}, plus two configurations with the legal limit duration 0. "
              "Invariants are evaluated on every transition; os.remove/os.rmdir are intercepted with the tracked set at that "
              "moment. A state is (disk, records, queue order, active_size)."),
        assumptions=["equal canonical states have equal futures (the handler has no other mutable state; events are handled synchronously under one lock)",
                     "thread interleavings finer than one handler call are not claimed by the property"],
    )
    stage.activate()
    cfgs = configs(tier)
    rot = core.seed() % len(cfgs)
    cfgs = cfgs[rot:] + cfgs[:rot]
    for part in core.pmap(explore, [(c, max_states, max_depth) for c in cfgs], chunksize=1):
        chk.merge(part)
    if chk.extra.get("capped_configs"):
        chk.cap("%d of %d configurations hit the state/depth cap (%d states, depth %d); %d closed completely" % (
            chk.extra["capped_configs"], len(cfgs), max_states, max_depth, chk.extra.get("closed_configs", 0)))
    return chk.finish()
