"""C15 - live event filter agrees with listing; finalizing rename is a creation (exhaustive grid)."""

import itertools
import os

from .. import core, stage, trees as T

PID = "C15"
TS = T.T0 + 4  # file time (s) of every valid data file in the grammar


def build_tree(top):
    """scratch tree in which every path of the grammar exists as a file; returns dict label -> abs path"""
    sd = T.subdir_name(T.T0)
    paths = {}

    def mk(label, rel):
        p = os.path.join(top, rel)
        os.makedirs(os.path.dirname(p), exist_ok=True)
        with open(p, "w") as f:
            f.write(label)
        paths[label] = p

    # proper channels
    mk("drf_prop", "chR/drf_properties.h5")
    mk("dmd_prop", "chM/dmd_properties.h5")
    mk("legacy_prop", "chL/metadata.h5")
    mk("rf", "chR/%s/rf@%d.000.h5" % (sd, TS))
    mk("rf_ms", "chR/%s/rf@%d.250.h5" % (sd, TS))
    mk("md", "chM/%s/metadata@%d.h5" % (sd, TS))
    mk("rf_in_legacy", "chL/%s/rf@%d.000.h5" % (sd, TS))
    mk("md_in_legacy", "chL/%s/meta@%d.h5" % (sd, TS))
    mk("nested_dmd_prop", "chR/metadata/dmd_properties.h5")
    mk("nested_md", "chR/metadata/%s/metadata@%d.h5" % (sd, TS))
    # near misses
    mk("tmp_rf", "chR/%s/tmp.rf@%d.000.h5" % (sd, TS))
    mk("tmp_md", "chM/%s/tmp.metadata@%d.h5" % (sd, TS))
    mk("tmp_drf_prop", "chR/tmp.drf_properties.h5")
    mk("tmp_dmd_prop", "chM/tmp.dmd_properties.h5")
    mk("bad_subdir_rf", "chR/2014-03-09_12-30-00/rf@%d.000.h5" % TS)
    mk("short_subdir_md", "chM/2014-03-09T12-30/metadata@%d.h5" % TS)
    # directories whose names only begin like a time-stamped subdirectory (an operator's copies)
    mk("bak_subdir_rf", "chR/%s.bak/rf@%d.000.h5" % (sd, TS))
    mk("old_subdir_md", "chM/%s_old/metadata@%d.h5" % (sd, TS))
    mk("longer_subdir_rf", "chR/%s5/rf@%d.000.h5" % (sd, TS))
    mk("bad_ts_rf", "chR/%s/rf@%d.00.h5" % (sd, TS))
    mk("bad_ts_rf2", "chR/%s/rf@abc.000.h5" % sd)
    mk("bad_ts_md", "chM/%s/metadata@.h5" % sd)
    mk("wrong_ext_rf", "chR/%s/rf@%d.000.hdf5" % (sd, TS))
    mk("wrong_ext_md", "chM/%s/metadata@%d.h5.txt" % (sd, TS))
    mk("rf_in_channel_dir", "chR/rf@%d.000.h5" % TS)
    mk("md_in_channel_dir", "chM/metadata@%d.h5" % TS)
    mk("other_h5", "chR/%s/notes.h5" % sd)
    mk("wrong_prop_name", "chR/drf_property.h5")
    return paths


KIND_OF = {"rf": "drf", "rf_ms": "drf", "rf_in_legacy": "drf", "md": "dmd", "md_in_legacy": "dmd", "nested_md": "dmd"}
TIME_MS = {"rf": TS * 1000, "rf_ms": TS * 1000 + 250, "rf_in_legacy": TS * 1000, "md": TS * 1000, "md_in_legacy": TS * 1000,
           "nested_md": TS * 1000}


def run_flags(flags):
    import digital_rf as drf
    from digital_rf import watchdog_drf
    from watchdog.events import (DirCreatedEvent, DirMovedEvent, FileCreatedEvent, FileDeletedEvent, FileModifiedEvent,
                                 FileMovedEvent)

    idrf, idmd, pdrf, pdmd = flags
    part = core.new_part()
    top = core.new_scratch()
    case = {"flags": list(flags)}

    def bad(key, detail, **extra):
        if len(part["violations"]) < 10:
            part["violations"].append(core.Violation(key, dict(case, **extra), detail))

    class Rec(watchdog_drf.DigitalRFEventHandler):
        def __init__(self, **kw):
            super().__init__(**kw)
            self.got = []

        def on_created(self, ev):
            self.got.append(("created", ev.src_path, None))

        def on_modified(self, ev):
            self.got.append(("modified", ev.src_path, None))

        def on_deleted(self, ev):
            self.got.append(("deleted", ev.src_path, None))

        def on_moved(self, ev):
            self.got.append(("moved", ev.src_path, ev.dest_path))

    try:
        paths = build_tree(top)
        eff_pdrf = idrf if pdrf is None else pdrf
        eff_pdmd = idmd if pdmd is None else pdmd
        nothing = not (idrf or idmd or eff_pdrf or eff_pdmd)
        times = [None, TS * 1000 - 1, TS * 1000, TS * 1000 + 0.4, TS * 1000 + 1, TS * 1000 + 250, TS * 1000 + 250.999, TS * 1000 + 251]
        import datetime as _dt

        other_tz = _dt.timezone(_dt.timedelta(hours=-9, minutes=-30))
        for s, e in itertools.product(times, repeat=2):
            if s is not None and e is not None and e < s:
                continue
            kw = dict(include_drf=idrf, include_dmd=idmd, include_drf_properties=pdrf, include_dmd_properties=pdmd,
                      starttime=T.from_ms(s) if s is not None else None, endtime=T.from_ms(e) if e is not None else None)
            # the same instants as naive (documented: UTC) or other-zone aware datetimes for the handler;
            # the listing oracle below always receives the UTC-aware form
            form = (times.index(s) + 2 * times.index(e)) % 3
            hkw = dict(kw)
            for key_ in ("starttime", "endtime"):
                if hkw[key_] is not None:
                    if form == 1:
                        hkw[key_] = hkw[key_].replace(tzinfo=None)
                    elif form == 2:
                        hkw[key_] = hkw[key_].astimezone(other_tz)
            try:
                h = Rec(**hkw)
                if nothing:
                    bad({"class": "no_file_type_accepted"}, "handler constructed although no file type is selected")
                    continue
            except ValueError:
                if not nothing:
                    bad({"class": "handler_constructor_raised"}, "flags %r" % (flags,))
                continue
            listed = set(drf.lsdrf(top, **kw))
            listed_all = set(drf.lsdrf(top, include_drf=idrf, include_dmd=idmd, include_drf_properties=pdrf, include_dmd_properties=pdmd))
            for match_time in (True, False):
                ref = listed if match_time else listed_all

                def accept(label):
                    p = paths[label]
                    if match_time and label in TIME_MS and s is not None and TIME_MS[label] < s:
                        # the forward-fill extra of a metadata listing (in a legacy metadata.h5 channel it
                        # can also be an RF-named file) is set aside, as the statement says
                        return False
                    return p in ref

                def fire(ev):
                    h.got = []
                    h.dispatch(ev, match_time=match_time)
                    part["evaluations"] += 1
                    part["transitions"] += 1
                    return list(h.got)

                for label, p in paths.items():
                    a = accept(label)
                    for name, cls in (("created", FileCreatedEvent), ("modified", FileModifiedEvent), ("deleted", FileDeletedEvent)):
                        got = fire(cls(p))
                        want = [(name, p, None)] if a else []
                        part["outcomes"]["%s:%s" % (name, "delivered" if got else "dropped")] += 1
                        if got != want:
                            bad({"class": "filter_disagrees_with_listing", "event": name, "path": label},
                                "%s(%s) flags=%r window=%r match_time=%r -> %r, listing says %s" % (
                                    name, os.path.relpath(p, top), flags, (s, e), match_time, got, "accept" if a else "reject"),
                                window=[s, e], match_time=match_time)
                    got = fire(DirCreatedEvent(p))
                    if got:
                        bad({"class": "directory_event_delivered", "path": label}, "DirCreatedEvent(%s) -> %r" % (p, got))
                for ls, ps in paths.items():
                    for ld, pd in paths.items():
                        if ls == ld:
                            continue
                        a, b = accept(ls), accept(ld)
                        if match_time and a != b and ps in listed_all and pd in listed_all:
                            # both names match the grammar but only one lies in the time window (a data file
                            # renamed to another timestamp or into a properties file): outside the stated behaviours
                            continue
                        gotd = fire(DirMovedEvent(ps, pd))
                        if gotd:
                            bad({"class": "directory_event_delivered", "src": ls, "dest": ld},
                                "DirMovedEvent(%s -> %s) flags=%r -> %r" % (os.path.relpath(ps, top), os.path.relpath(pd, top), flags, gotd))
                        got = fire(FileMovedEvent(ps, pd))
                        if a and b:
                            want = [("moved", ps, pd)]
                        elif a:
                            want = [("deleted", ps, None)]
                        elif b:
                            want = [("created", pd, None)]
                        else:
                            want = []
                        part["outcomes"]["moved:%s" % (want[0][0] if want else "dropped")] += 1
                        if got != want:
                            k = {"class": "move_conversion", "src": ls, "dest": ld}
                            bad(k, "moved(%s -> %s) flags=%r window=%r match_time=%r -> %r expected %r" % (
                                os.path.relpath(ps, top), os.path.relpath(pd, top), flags, (s, e), match_time, got, want),
                                window=[s, e], match_time=match_time)
                got = fire(DirMovedEvent(paths["rf"], paths["md"]))
                if got:
                    bad({"class": "directory_event_delivered"}, "DirMovedEvent -> %r" % (got,))
        part["traces"] += 1
        part["nontrivial"].add(core.canon(flags))
        part["states"].add(core.canon(flags))
        if not part["samples"]:
            part["samples"].append({"flags": list(flags), "paths": sorted(os.path.relpath(p, top) for p in paths.values())[:8]})
    finally:
        core.rm(top)
    return part


def replay(case):
    part = run_flags(tuple(case["flags"]))
    return [(v["key"], v["detail"]) for v in part["violations"]]


def main(tier):
    chk = core.Check(
        PID, tier, "exploration",
        rule=("complete product: event kinds {created, modified, deleted, moved (all ordered src/dest pairs), directory events} x "
              "25 paths (valid RF with .000 and .250 ms, valid metadata, RF/metadata in a legacy channel, nested metadata "
              "channel, the three properties names, tmp. variants of each, malformed/short subdirectory, malformed timestamps, "
              "wrong extensions, data file directly in the channel directory, other .h5) x all 36 include-flag combinations "
              "(the 4 selecting nothing must raise ValueError) x all start/end pairs over {None, T-1ms, T, T+1ms, T+250ms, "
              "T+251ms} x match_time; oracle: the real lsdrf with the same options on a tree containing every path."),
        assumptions=["moves between two grammar-matching names of which only one lies in the time window (renaming a data file to another timestamp / to a properties name) are not checked",
                     "upper-case names and deeper nesting are outside the stated grammar"],
    )
    stage.activate()
    flags = list(itertools.product((True, False), (True, False), (None, True, False), (None, True, False)))
    rot = core.seed() % len(flags)
    flags = flags[rot:] + flags[:rot]
    for part in core.pmap(run_flags, flags, chunksize=1):
        chk.merge(part)
    return chk.finish()
