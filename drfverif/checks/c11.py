"""C11 - multi-session and multi-directory continuity without overwrite (sequence explorer)."""

import hashlib
import os

from .. import core, rf, rfrun, stage, universe as U

PID = "C11"

N, D, FC, SC = 10, 3, 1000, 2
BASE_MS = 1394333998000 // 2000 * 2000  # file index 0
DIRS = ("A", "B", "C")

MISMATCHES = {
    "class": dict(kind="f", size=4),
    "size": dict(size=4),
    "byte_order": dict(order=">"),
    "subdir_cadence": dict(sc=4),
    "file_cadence": dict(fc=500),
    "numerator": dict(n=20),
    "denominator": dict(d=7),
    "complex": dict(cplx=True),
    "subchannels": dict(nsub=2),
    "continuous": "flip",
}


def first_of_file(f):
    return rf.first_sample_of_ms(BASE_MS + f * FC, N, D)


def file_of(k):
    return (rf.file_ms(k, N, D, FC) - BASE_MS) // FC


def two_periods(kind):
    """first session recording two separate periods: files 10 and 14, or 10 and 15 (second half of a subdirectory)"""
    second = 14 if kind == "two_periods" else 15
    return first_of_file(10), [("w", 0, 2), ("w", first_of_file(second) - first_of_file(10), 2)]


def session_menu(state, depth):
    """enumerate (dir, start_kind, writes_kind) / (dir, 'mismatch', name) choices for the next session.
    state: dict dir -> set(file indices recorded)"""
    allf = set().union(*state.values()) if state else set()
    out = []
    dirs = DIRS[: min(depth + 1, 3)]
    for dname in dirs:
        mine = state.get(dname, set())
        for sk in ("later", "next_free", "earlier", "gap", "gap_last", "inside_finalized"):
            if not allf and sk != "later":
                continue
            free = [f for f in range(min(allf) + 1, max(allf)) if f not in allf] if allf else []
            if sk == "gap" and not free:
                continue
            if sk == "gap_last" and len(free) < 2:
                continue
            if sk == "inside_finalized" and not mine:
                continue
            for wk in ("one_file", "cross", "run_into", "blocks"):
                if sk == "inside_finalized" and wk not in ("one_file", "blocks"):
                    continue
                if wk == "blocks" and sk != "inside_finalized":
                    continue
                out.append((dname, sk, wk))
        if mine:
            for name in MISMATCHES:
                out.append((dname, "mismatch", name))
    return out


def build_session(state, choice):
    """-> (dir, start_abs, ops, expect) or None when the choice is not constructible/pruned"""
    dname, sk, wk = choice
    allf = set().union(*state.values()) if state else set()
    mine = state.get(dname, set())
    others = allf - mine
    if sk == "zero":
        f0 = 0
        start = 0
    elif sk == "later":
        f0 = (max(allf) + 2) if allf else 10
        start = first_of_file(f0)
    elif sk == "next_free":
        f0 = max(allf) + 1
        start = first_of_file(f0)
    elif sk == "earlier":
        f0 = min(allf) - 4
        if f0 < 0:
            return None
        start = first_of_file(f0)
    elif sk in ("gap", "gap_last"):
        free = [f for f in range(min(allf) + 1, max(allf)) if f not in allf]
        f0 = free[0] if sk == "gap" else free[-1]
        start = first_of_file(f0)
    else:  # inside_finalized: second sample of my newest finalized file
        f0 = max(mine)
        start = first_of_file(f0) + 1
    later_free = first_of_file((max(allf) if allf else f0) + 4 + (0 if sk != "later" else 3))
    if sk == "inside_finalized" and wk == "blocks":
        # one multi-block call: its first block needs the finalized file, its last block lies in a free period;
        # then a plain write further on
        ops = [("wb", [0, later_free - start], [0, 2], 4), ("w", later_free - start + 40, 2)]
    elif sk == "inside_finalized":
        ops = [("w", 0, 2), ("w", later_free - start, 2)]
    elif wk == "one_file":
        ops = [("w", 0, 2)]
    elif wk == "cross":
        ops = [("w", 0, 5)]
    else:
        nxt = sorted(f for f in mine if f > f0)
        if not nxt:
            return None
        L = first_of_file(nxt[0]) - start + 2
        if L > 60:
            return None
        ops = [("w", 0, L), ("w", later_free - start, 2)]
    # prune: a session may not record a file period that exists in another directory
    touched = set()
    for op in ops:
        g_, b_, L_ = rf.op_blocks(op, 0)
        for i_ in range(len(g_)):
            n_ = (b_[i_ + 1] if i_ + 1 < len(b_) else L_) - b_[i_]
            for k in range(start + g_[i_], start + g_[i_] + n_):
                touched.add(file_of(k))
    if touched & others:
        return None
    return dname, start, ops


def enumerate_histories(max_sessions):
    """all session sequences up to max_sessions as lists of choices"""
    out = []

    def rec(prefix, state, depth):
        if prefix:
            out.append(list(prefix))
        if depth == max_sessions:
            return
        if not prefix:
            menu = [("A", "later", wk) for wk in ("one_file", "cross", "two_periods", "two_periods_b")]
            menu += [("A", "zero", wk) for wk in ("one_file", "cross")]  # the recording begins at index 0 of the epoch
        else:
            menu = session_menu(state, depth)
        for ch in menu:
            if ch[1] == "mismatch":
                rec(prefix + [ch], state, depth + 1)
                continue
            if ch[2] in ("two_periods", "two_periods_b"):
                dname, start, ops = ("A",) + two_periods(ch[2])
            else:
                b = build_session(state, ch)
                if b is None:
                    continue
                dname, start, ops = b
            st2 = {k: set(v) for k, v in state.items()}
            fl = st2.setdefault(dname, set())
            mine_before = set(fl)
            for op in ops:
                blocked = False
                g_, b_, L_ = rf.op_blocks(op, 0)
                for i_ in range(len(g_)):
                    n_ = (b_[i_ + 1] if i_ + 1 < len(b_) else L_) - b_[i_]
                    for k in range(start + g_[i_], start + g_[i_] + n_):
                        f = file_of(k)
                        if f in mine_before:
                            blocked = True
                            break
                        fl.add(f)
                    if blocked:
                        break
            rec(prefix + [ch], st2, depth + 1)

    rec([], {}, 0)
    return out


def file_hashes(top_dirs):
    out = {}
    for t in top_dirs:
        for rel in rf.list_tree(t):
            if "/rf@" in rel:
                with open(os.path.join(t, rel), "rb") as f:
                    out[os.path.join(t, rel)] = hashlib.sha256(f.read()).hexdigest()
    return out


def run_history(args):
    import digital_rf as drf

    mode, hist = args
    seed = core.seed()
    part = core.new_part()
    root = core.new_scratch(long_path=(mode == "gapped"))
    case = {"mode": mode, "history": hist, "seed": seed}
    base_cfg = rf.Cfg(n=N, d=D, fc=FC, sc=SC, **U.MODES[mode])

    def bad(key, detail):
        part["violations"].append(core.Violation(key, case, detail))

    try:
        models = {}
        state = {}
        tops = []
        finalized_hash = {}
        sess_no = 0
        trace = []
        polling = None
        for ch in hist:
            dname = ch[0]
            top = os.path.join(root, dname)
            chdir = os.path.join(top, "ch0")
            if ch[1] == "mismatch":
                name = ch[2]
                over = MISMATCHES[name]
                m = models[dname]
                if over == "flip":
                    over = dict(cont=not base_cfg["cont"])
                cfg = rf.Cfg(**{**base_cfg, **over, "start": first_of_file(60), "uuid": "mismatch"})
                dig = rfrun.dir_digest(chdir)
                try:
                    w = rf.open_writer(drf, chdir, cfg)
                    w.close()
                    bad({"class": "mismatching_session_accepted", "param": name}, "session with different %s was accepted" % name)
                except Exception:  # noqa: BLE001
                    pass
                if rfrun.dir_digest(chdir) != dig:
                    bad({"class": "mismatching_session_changed_directory", "param": name}, "directory changed by refused session (%s)" % name)
                part["outcomes"]["mismatch:" + name] += 1
                part["transitions"] += 1
                trace.append(("mismatch", dname, name))
                continue
            if ch[2] in ("two_periods", "two_periods_b"):
                start, ops = two_periods(ch[2])
            else:
                b = build_session(state, ch)
                assert b is not None, ch
                _, start, ops = b
            os.makedirs(chdir, exist_ok=True)
            if top not in tops:
                tops.append(top)
            m = models.setdefault(dname, rf.Model())
            cfg = rf.Cfg(**{**base_cfg, "start": start, "uuid": "session-%d" % sess_no})
            sess_no += 1
            try:
                w = rf.open_writer(drf, chdir, cfg)
            except Exception as e:  # noqa: BLE001
                bad({"class": "matching_session_refused"}, "%r: %r" % (ch, e))
                break
            m.open_session(cfg)
            for op in ops:
                g, b_, L = rf.op_blocks(op, m.cursor)
                arr = rf.values_for(cfg, seed, g, b_, L)
                try:
                    ret = rf.do_write(w, cfg, seed, op, m.cursor, arr)
                    status = "ok"
                except Exception as e:  # noqa: BLE001
                    status = "exc"
                stored, blocked = m.apply_write(g, b_, rf.row_bytes(arr))
                part["transitions"] += 1
                part["outcomes"]["%s:%s:%s" % (ch[1], ch[2], "refused" if blocked is not None else "stored")] += 1
                if blocked is not None and status == "ok":
                    bad({"class": "finalized_period_entered"}, "session %r op %r succeeded although file %d is finalized" % (ch, op, blocked))
                if blocked is None and status != "ok":
                    bad({"class": "free_period_write_refused", "start": ch[1], "writes": ch[2]}, "session %r op %r raised" % (ch, op))
                # previously finalized files must be untouched at every step
                now = file_hashes(tops)
                for fp, h in finalized_hash.items():
                    if now.get(fp) != h:
                        bad({"class": "finalized_file_changed"}, "%s changed or vanished during %r %r" % (fp, ch, op))
            w.close()
            m.close_session()
            # a reader that was created after the first session and has answered queries since then reports
            # the bounds of everything recorded so far in its directories (sessions may back-fill earlier periods)
            if polling is None:
                polling = (drf.DigitalRFReader(top), dname)
            if polling is not None:
                exd = models[polling[1]].exposed(rf.Cfg(**base_cfg))
                try:
                    bp = tuple(polling[0].get_bounds("ch0"))
                    if exd and bp != (min(exd), max(exd)):
                        bad({"class": "long_lived_reader_bounds"}, "after session %r: reader opened after the first session reports %r, "
                            "directory %s holds [%d,%d]" % (ch, bp, polling[1], min(exd), max(exd)))
                except Exception as e:  # noqa: BLE001
                    bad({"class": "long_lived_reader_raised", "exc": type(e).__name__}, "after session %r: %r" % (ch, e))
            state.setdefault(dname, set()).update(file_of(k) for k in m.written)
            finalized_hash = file_hashes(tops)
            trace.append((dname, start, ops))
        # ---- final: one reader over all directories == union of all sessions
        union = rf.Model()
        union.cfg = rf.Cfg(**base_cfg)
        for m in models.values():
            for k, v in m.written.items():
                if k in union.written:
                    raise core.HarnessError("generator produced the same index in two directories")
                union.written[k] = v
        if union.written and tops:
            reader = drf.DigitalRFReader(list(tops))
            ex = union.exposed(union.cfg)
            lo, hi = min(ex), max(ex)
            b = reader.get_bounds("ch0")
            if tuple(b) != (lo, hi):
                bad({"class": "bounds"}, "get_bounds %r expected %r" % (b, (lo, hi)))
            run = rfrun.Run()
            run.model, run.cfg = union, union.cfg
            errs, _ = rfrun.oracle_roundtrip(run, reader, "linear", edge_limit=30)
            for key, detail in errs:
                bad(key, detail)
            reader.close()
            # the answer does not depend on the order in which the directories are listed, nor on a further
            # directory whose channel has been set up (properties file) but holds no data file yet
            import itertools

            if len(tops) == 1 and len(repr(hist)) % 4:
                orders_wanted = False  # single-directory histories: every fourth one gets the extra directory
            else:
                orders_wanted = True
            etop = os.path.join(root, "E")
            os.makedirs(os.path.join(etop, "ch0"))
            rf.open_writer(drf, os.path.join(etop, "ch0"), rf.Cfg(**{**base_cfg, "start": first_of_file(90), "uuid": "no-data-yet"})).close()
            orders = [list(p_) for p_ in itertools.permutations(tops)] if len(tops) > 1 else []
            orders += [list(tops[:i_]) + [etop] + list(tops[i_:]) for i_ in range(len(tops) + 1)]
            if not orders_wanted:
                orders = []
            for oi, order in enumerate(orders):
                names = [os.path.basename(t_) for t_ in order]
                try:
                    r3 = drf.DigitalRFReader(order)
                    b3 = tuple(r3.get_bounds("ch0"))
                    if b3 != (lo, hi):
                        bad({"class": "bounds_depend_on_directory_list", "with_empty_channel": etop in order},
                            "directories listed as %s: get_bounds %r expected %r" % (names, b3, (lo, hi)))
                    if oi in (len(orders) - 1, 1):
                        errs, _ = rfrun.oracle_roundtrip(run, r3, "linear", edge_limit=12)
                        for key, detail in errs:
                            bad(dict(key, dir_order="permuted"), "directories listed as %s: %s" % (names, detail))
                    r3.close()
                except Exception as e:  # noqa: BLE001
                    bad({"class": "reader_raised_for_directory_list", "exc": type(e).__name__, "with_empty_channel": etop in order},
                        "directories listed as %s: %r" % (names, e))
                part["outcomes"]["dir_orders"] += 1
            # every directory alone: layout
            for dname, m in models.items():
                r2 = rfrun.Run()
                r2.model, r2.cfg, r2.chdir = m, rf.Cfg(**base_cfg), os.path.join(root, dname, "ch0")
                for key, detail in rfrun.oracle_layout(r2):
                    bad(dict(key, dir=dname), detail)
        part["evaluations"] += 1
        part["traces"] += 1
        st = core.canon((mode, {d_: sorted(m.written) for d_, m in models.items()}))
        part["states"].add(st)
        part["nontrivial"].add(core.canon((mode, hist)))
        if not part["samples"]:
            part["samples"].append({"mode": mode, "history": hist, "trace": trace})
    finally:
        core.rm(root)
    return part


def run_two_live_writers(mode):
    """Two recorder processes alive at once on one channel (a replacement recorder is started before the old one has
    stopped) and the second one writes into the file period the first is still filling: whatever the second one is
    told, the first one's file is published intact at its close and never changes afterwards.  The first recorder
    runs as a subprocess under the shim and is held right after it has created its temporary file."""
    import digital_rf as drf
    from .. import fsctl

    seed = core.seed()
    part = core.new_part()
    root = core.new_scratch()
    case = {"two_live_writers": mode, "seed": seed}
    base_cfg = rf.Cfg(n=N, d=D, fc=FC, sc=SC, **U.MODES[mode])

    def bad(key, detail):
        part["violations"].append(core.Violation(key, case, detail))

    try:
        top = os.path.join(root, "A")
        chdir = os.path.join(top, "ch0")
        os.makedirs(chdir)
        start = first_of_file(20)
        ca = rf.Cfg(**{**base_cfg, "start": start, "uuid": "recorder-a"})
        cb = rf.Cfg(**{**base_cfg, "start": start + 1, "uuid": "recorder-b"})
        ops_a = [("open", {}), ("w", 0, 2), ("w", 2, 1), ("close",)]
        _, ma = crash_model(ca, ops_a)
        sess = fsctl.host().start(top, chdir, ca, ops_a, seed, fsctl.plan(pause_after=1 << fsctl.KINDS["create"]))
        held = False
        wb = None
        b_entered = False
        while True:
            ev = sess.next_pause()
            if ev is None:
                break
            if not held and os.path.basename(ev[1].get("path") or "").startswith("tmp.rf@"):
                held = True
                # recorder A holds its temporary data file open; recorder B (this process) arrives
                wb = rf.open_writer(drf, chdir, cb)
                try:
                    rf.do_write(wb, cb, seed, ("w", 0, 1), 0)
                    b_entered = True
                except Exception:  # noqa: BLE001
                    pass
        res = sess.result()
        if not held:
            raise core.HarnessError("recorder A was never held at its temporary file")
        part["outcomes"]["second_live_writer:%s" % ("accepted" if b_entered else "refused")] += 1
        before = file_hashes([top])
        if res["status"] != 0 or not before:
            bad({"class": "first_writer_file_missing"}, "the first recorder (exit status %r) did not publish its file" % res["status"])
        later = first_of_file(26) - cb["start"]
        try:
            rf.do_write(wb, cb, seed, ("w", later, 2), 0)
        except Exception:  # noqa: BLE001
            part["outcomes"]["second_live_writer_later_write_refused"] += 1
        wb.close()
        after = file_hashes([top])
        for fp, h in before.items():
            if after.get(fp) != h:
                bad({"class": "finalized_file_changed"}, "%s changed or vanished after the first recorder had published it" % os.path.basename(fp))
        # the first recorder's samples are readable with their values
        reader = drf.DigitalRFReader(top)
        got = {}
        try:
            for k, arr in reader.read(start - 1 if start else 0, start + 8, "ch0").items():
                for j_, row in enumerate(rf.norm_rows(rf.Cfg(**base_cfg), arr)):
                    got[int(k) + j_] = row
        except Exception as e:  # noqa: BLE001
            bad({"class": "reader_raised", "exc": type(e).__name__}, repr(e))
        miss = [k for k, row in ma.written.items() if got.get(k) != row]
        if miss:
            bad({"class": "roundtrip_mismatch"}, "samples %s written by the first recorder are not readable with their values" % sorted(miss)[:4])
        reader.close()
        part["evaluations"] += 1
        part["traces"] += 1
        part["transitions"] += len(res["ops"])
        part["states"].add(core.canon(("two_live_writers", mode)))
        part["nontrivial"].add(core.canon(("two_live_writers", mode)))
    finally:
        core.rm(root)
    return part


def crash_model(cfg, ops):
    from .. import crash

    return crash.model_prefixes(cfg, ops)


def replay(case):
    if "two_live_writers" in case:
        os.environ["VERIF_SEED"] = str(case.get("seed", 0))
        return [(v["key"], v["detail"]) for v in run_two_live_writers(case["two_live_writers"])["violations"]]
    os.environ["VERIF_SEED"] = str(case.get("seed", 0))
    part = run_history((case["mode"], [tuple(c) for c in case["history"]]))
    return [(v["key"], v["detail"]) for v in part["violations"]]


def main(tier):
    depth = 3 if tier == "quick" else 4
    chk = core.Check(
        PID, tier, "model_checking",
        rule=("all sequences of up to %d sessions: session = (directory in {A,B,C}, start in {later than all data, first "
              "sample of the next free file, earlier than all data, inside a gap between recorded periods, inside a file "
              "finalized by the same directory}, writes in {within one file, crossing into the next file, running into a "
              "finalized file period then a later free period}) or one of 10 single-parameter mismatches; histories that "
              "would record one file period in two directories are pruned (the format forbids them). After every call the "
              "hashes of all previously finalized files are compared; at the end one reader over all directories is compared "
              "with the union model (directories listed in every order, plus a directory whose channel has no data yet; a reader kept "
              "open since the first session is asked after every session). First sessions also start at index 0 of the epoch. "
              "Storage modes: gapped and continuous.") % depth,
        assumptions=["sign-only dtype changes are not stored with the channel and are not used as mismatches"],
    )
    stage.activate()
    hists = enumerate_histories(depth)
    if tier != "quick":
        # depth 4 is large (226k sequences): keep every sequence of depth <= 3, and the depth-4 sequences that
        # start with the first two-period first session and contain no parameter mismatch (those are covered at depth <= 3)
        hists = [h for h in hists if len(h) <= 3 or (h[0][2] == "two_periods" and all(x[1] != "mismatch" for x in h))]
    # recordings that begin at index 0 of the epoch: up to two sessions (quick) / three (thorough), without mismatches
    hists = [h for h in hists if h[0][1] != "zero" or (len(h) <= (2 if tier == "quick" else 3) and all(x[1] != "mismatch" for x in h))]
    jobs = [(mode, h) for mode in ("gapped", "cont") for h in hists if len(h) <= 3 or mode == "gapped"]
    rot = core.seed() % max(1, len(jobs))
    jobs = jobs[rot:] + jobs[:rot]
    for part in core.pmap(run_history, jobs, chunksize=8):
        chk.merge(part)
    for part in core.pmap(run_two_live_writers, ["gapped", "cont"], chunksize=1, isolate=False):
        chk.merge(part)
    return chk.finish()
