"""C08 - reader query coherence (metamorphic + model, exhaustive over edge sets)."""

import os

import numpy as np

from .. import core, rf, rfrun, stage, universe as U
from . import c01

PID = "C08"


def channels(tier):
    """fixed sub-universe of channels: (cfg dict, ops, label)"""
    out = []
    rates = [(10, 3, 1000, 2), (2, 3, 2000, 4), (1000, 1, 3, 3)]
    if tier != "quick":
        rates += [(7, 2, 1000, 3), (1, 1, 1000, 2)]
    layouts = {
        "blocks+gaps": [("wb", [0, 5, 13], [0, 2, 6], 9), ("w", 25, 3)],
        "single_sample_blocks": [("wb", [0, 2, 4, 9], [0, 1, 2, 3], 4), ("w", 11, 1)],
        "contiguous_multi_file": [("w", 0, 5), ("w", 5, 9)],
        "head_gap": [("w", 1, 7)],
    }
    ci = 0
    for (n, d, fc, sc) in rates:
        starts = U.start_positions(n, d, fc, sc, U.EPOCHS[1:2])
        for mode in U.MODES:
            for lname, ops in layouts.items():
                if tier == "quick" and mode in ("cont+gz1", "gapped+gz9+cks") and lname != "blocks+gaps":
                    continue
                k0, label = starts[ci % len(starts)]
                ci += 1
                out.append((dict(c01._cfg(n, d, fc, sc, k0, mode)), ops, "%d/%d %s %s %s" % (n, d, mode, lname, label)))
    # types: 3 subchannels, complex int, complex float, 64-bit ints, unsigned, big-endian
    n, d, fc, sc = 10, 3, 1000, 2
    k0 = U.start_positions(n, d, fc, sc, U.EPOCHS[1:2])[2][0]
    for kind, size, order, cplx, nsub in (("i", 2, "<", False, 3), ("i", 2, ">", True, 1), ("f", 4, "<", True, 2),
                                          ("i", 8, "<", False, 1), ("u", 8, ">", False, 2), ("u", 1, "<", True, 3),
                                          ("f", 8, ">", False, 1), ("i", 4, "<", True, 2)):
        for mode in ("gapped", "cont"):
            out.append((dict(c01._cfg(n, d, fc, sc, k0, mode, kind=kind, size=size, order=order, cplx=cplx, nsub=nsub)),
                        layouts["blocks+gaps"], "type %s%d%s cplx=%s nsub=%d %s" % (kind, size, order, cplx, nsub, mode)))
    # one channel spread over two top-level directories (files alternate; the directory listed first holds
    # the later file of each pair, so blocks arrive out of time order and must still be sorted and merged)
    for mode, lname in (("gapped", "blocks+gaps"), ("cont", "contiguous_multi_file"), ("gapped", "contiguous_multi_file")):
        k0 = U.start_positions(10, 3, 1000, 2, U.EPOCHS[1:2])[1][0]
        out.append((dict(c01._cfg(10, 3, 1000, 2, k0, mode)), layouts[lname], "SPLITDIRS 10/3 %s %s" % (mode, lname)))
    # recordings that begin at the very first index of the epoch (index 0 is a sample like any other); in continuous
    # mode a start inside the first file period is padded back to index 0
    out.append((dict(c01._cfg(10, 3, 1000, 2, 0, "gapped")), layouts["contiguous_multi_file"], "10/3 gapped start_index_0"))
    out.append((dict(c01._cfg(10, 3, 1000, 2, 2, "cont")), layouts["blocks+gaps"], "10/3 cont start_in_first_file_period"))
    out.append((dict(c01._cfg(10, 3, 1000, 2, 0, "gapped")), layouts["contiguous_multi_file"], "SPLITDIRS ZEROFIRST 10/3 gapped start_index_0"))
    # the Unix second gains a digit inside one subdirectory (rf@999999999 -> rf@1000000000, 2001-09-09): name order is not time order
    for mode in ("gapped", "cont"):
        out.append((dict(c01._cfg(1, 1, 1000, 3600, 999999998, mode)), layouts["contiguous_multi_file"], "1/1 %s seconds_gain_a_digit" % mode))
    # a 14 MHz-class rate with 1 ms files: index x denominator x 1000 exceeds 2^64 (ranges are also given as numpy integers)
    k0 = rf.first_sample_of_ms(1394333998000, 10**8, 7)
    out.append((dict(c01._cfg(10**8, 7, 1, 3600, k0, "gapped")), [("w", 0, 5), ("w", 5, 9), ("w", 14280, 12)], "1e8/7 gapped 1ms_files"))
    # 26-27 samples per file: files that start with missing samples and hold three or four blocks (queries
    # ending in the empty head of such a file, or early in its first block)
    n, d, fc, sc = 200, 3, 400, 2
    k0 = U.start_positions(n, d, fc, sc, U.EPOCHS[1:2])[0][0]
    for mode in ("gapped", "gapped+gz9+cks"):
        out.append((dict(c01._cfg(n, d, fc, sc, k0, mode)), [("wb", [3, 8, 12, 20, 30], [0, 3, 5, 8, 9], 12), ("w", 33, 2), ("w", 40, 1)],
                    "200/3 %s many_blocks_per_file" % mode))
    # floating-point boundary channels
    for j in c01.fp_jobs("quick")[:: (16 if tier == "quick" else 4)]:
        _, cfg, ops, firsts, label = j
        out.append((cfg, ops, "fp " + label))
    return out


def merge(a, b):
    """merge two read results ([(start, bytes-rows list)]) of adjacent ranges"""
    out = [(k, list(v)) for k, v in a]
    for k, v in b:
        if out and out[-1][0] + len(out[-1][1]) == k:
            out[-1][1].extend(v)
        else:
            out.append((k, list(v)))
    return out


def expected_vector(cfg, rows, sub):
    """model rows (bytes per sample, all subchannels) -> array as read_vector_raw must return it"""
    sd = cfg.sample_dtype()
    arr = np.frombuffer(b"".join(rows), dtype=sd).reshape(len(rows), cfg["nsub"])
    if sub is not None:
        return arr[:, sub]
    if cfg["nsub"] == 1:
        return arr[:, 0]
    return arr


def to_float(z):
    if z.dtype.names is not None:
        out = np.empty(z.shape, dtype=np.promote_types("c8", z.dtype["r"]))
        out.real = z["r"]
        out.imag = z["i"]
        return out
    return np.asarray(z, dtype=np.promote_types("f4", z.dtype))


def same_values(a, b):
    if a.shape != b.shape:
        return False
    if a.dtype.names is not None or b.dtype.names is not None:
        if a.dtype.names != b.dtype.names:
            return False
        return all(same_values(a[n], b[n]) for n in a.dtype.names)
    if a.dtype.kind != b.dtype.kind or a.dtype.itemsize != b.dtype.itemsize:
        return False
    return a.astype(a.dtype.newbyteorder("="), copy=False).tobytes() == b.astype(b.dtype.newbyteorder("="), copy=False).tobytes()


def run_channel(item):
    import digital_rf as drf
    import h5py

    cfgd, ops, label = item
    seed = core.seed()
    part = core.new_part()
    cfg = rf.Cfg(**cfgd)
    ops = [tuple(o) for o in ops]
    top = core.new_scratch()
    case = {"cfg": cfgd, "ops": ops, "seed": seed, "label": label}

    def bad(key, detail, **extra):
        part["violations"].append(core.Violation(key, dict(case, **extra), detail))

    try:
        run = rfrun.execute(cfg, ops, seed, top)
        for key, detail in run.errors:
            bad(key, detail)
        model = run.model
        ch = cfg["ch"]
        tops = top
        if label.startswith("SPLITDIRS"):
            import shutil

            top2 = os.path.join(top, "second_disk")
            data = sorted(p for p in rf.list_tree(run.chdir) if "/rf@" in p)
            os.makedirs(os.path.join(top2, ch))
            shutil.copy2(os.path.join(run.chdir, "drf_properties.h5"), os.path.join(top2, ch, "drf_properties.h5"))
            for i, rel in enumerate(data):
                if i % 2 == 1:
                    os.makedirs(os.path.join(top2, ch, os.path.dirname(rel)), exist_ok=True)
                    os.rename(os.path.join(run.chdir, rel), os.path.join(top2, ch, rel))
            tops = [top2, top] if "ZEROFIRST" not in label else [top, top2]
        reader = drf.DigitalRFReader(tops)
        ex = model.exposed(cfg)
        edges = rfrun.edge_set(model, cfg, band=3, limit=(64 if "many_blocks" in label else 28))
        lo, hi = min(ex), max(ex)
        part["states"].add(core.canon((cfgd, ops)))
        # --- bounds
        b = reader.get_bounds(ch)
        part["evaluations"] += 1
        if tuple(b) != (lo, hi):
            bad({"class": "bounds"}, "get_bounds %r, first/last readable index %r" % (b, (lo, hi)))
        # --- all (s, e): read vs model, get_continuous_blocks vs read, subchannels
        cache = {}
        nbad = 0
        for s in edges:
            for e in edges:
                if e < s:
                    continue
                got = rf.read_runs(reader, ch, s, e)
                part["evaluations"] += 1
                part["transitions"] += 1
                cache[(s, e)] = [(k, rf.norm_rows(cfg, v)) for k, v in got]
                err = rf.compare_runs(cfg, got, model.runs(s, e, cfg))
                if err and nbad < 3:
                    nbad += 1
                    bad({"class": "read_vs_model"}, "read(%d,%d): %s" % (s, e, err), query=[s, e])
                blocks = reader.get_continuous_blocks(s, e, ch)
                part["evaluations"] += 1
                if [(int(k), int(v)) for k, v in blocks.items()] != [(k, len(v)) for k, v in got]:
                    bad({"class": "blocks_vs_read"}, "get_continuous_blocks(%d,%d)=%s read lengths %s" % (
                        s, e, dict(blocks), [(k, len(v)) for k, v in got]), query=[s, e])
                part["outcomes"]["read blocks=%d" % len(got)] += 1
        # --- the same ranges given as numpy integer scalars (indices usually come out of numpy arithmetic; the
        #     format's own index type is uint64): same answer as with Python ints
        ntyped = 0
        for T_ in (np.uint64, np.int64):
            for s in edges:
                for e in edges[::2]:
                    if e < s or (s, e) not in cache or ntyped > 1200 or (T_ is np.int64 and e >= 2**63):
                        continue
                    ntyped += 1
                    try:
                        got = rf.read_runs(reader, ch, T_(s), T_(e))
                        blocks = reader.get_continuous_blocks(T_(s), T_(e), ch)
                    except TypeError:
                        part["outcomes"]["numpy_index_refused"] += 1
                        continue
                    part["evaluations"] += 2
                    if [(k, rf.norm_rows(cfg, v)) for k, v in got] != cache[(s, e)]:
                        bad({"class": "numpy_index_changes_answer", "call": "read", "type": T_.__name__},
                            "read(%s(%d), %s(%d)) returns blocks %s; with Python ints %s" % (
                                T_.__name__, s, T_.__name__, e, [(k, len(v)) for k, v in got], [(k, len(v)) for k, v in cache[(s, e)]]), query=[s, e])
                        break
                    if [(int(k), int(v)) for k, v in blocks.items()] != [(k, len(v)) for k, v in cache[(s, e)]]:
                        bad({"class": "numpy_index_changes_answer", "call": "get_continuous_blocks", "type": T_.__name__},
                            "get_continuous_blocks(%s(%d), %s(%d)) = %s; with Python ints %s" % (
                                T_.__name__, s, T_.__name__, e, dict(blocks), [(k, len(v)) for k, v in cache[(s, e)]]), query=[s, e])
                        break
                else:
                    continue
                break
        # subchannel selection on a linear subset of ranges
        for c in range(cfg["nsub"]):
            for s in edges:
                for e in (s, hi + 1):
                    if e < s:
                        continue
                    full = rf.read_runs(reader, ch, s, e)
                    sub = rf.read_runs(reader, ch, s, e, c)
                    part["evaluations"] += 1
                    ok = [(k, v.shape[0]) for k, v in full] == [(k, v.shape[0]) for k, v in sub] and all(
                        v2.ndim == 1 and same_values(v1[:, c], v2) for (_, v1), (_, v2) in zip(full, sub))
                    if not ok:
                        bad({"class": "subchannel_column"}, "read(%d,%d,sub_channel=%d) != column %d of full read" % (s, e, c, c),
                            query=[s, e, c])
        # --- splits: read(s,e) == merge(read(s,m), read(m+1,e)) for all cached triples
        nsplit = 0
        for (s, e), whole in cache.items():
            for m in edges:
                if s <= m < e and (s, m) in cache and (m + 1, e) in cache:
                    nsplit += 1
                    if merge(cache[(s, m)], cache[(m + 1, e)]) != whole:
                        bad({"class": "split_merge"}, "read(%d,%d) != merge(read(%d,%d), read(%d,%d))" % (s, e, s, m, m + 1, e),
                            query=[s, m, e])
        part["evaluations"] += nsplit
        part["extra"]["split_checks"] = nsplit
        # --- vector reads
        runs = model.runs(cfg=cfg)
        blens = sorted({len(r[1]) for r in runs})
        lengths = sorted(set([1, 2, cfg["nsub"]] + blens + [x + 1 for x in blens]))[:9]
        nvec = 0
        for s in edges:
            for L in lengths:
                want_rows = [ex.get(k, "missing") for k in range(s, s + L)]
                covered = all(r != "missing" for r in want_rows)
                for sub in [None] + list(range(min(cfg["nsub"], 2))):
                    for meth in ("read_vector_raw", "read_vector", "read_vector_1d"):
                        if meth == "read_vector_1d" and sub is None:
                            continue
                        nvec += 1
                        try:
                            if meth == "read_vector_1d":
                                z = reader.read_vector_1d(s, L, ch, sub)
                            else:
                                z = getattr(reader, meth)(s, L, ch, sub)
                            res = ("ok", z)
                        except IOError as ex_:
                            res = ("ioerror", ex_)
                        except Exception as ex_:  # noqa: BLE001
                            res = ("other", ex_)
                        part["outcomes"]["%s:%s" % (meth, res[0])] += 1
                        q = [meth, s, L, sub]
                        if not covered:
                            if res[0] != "ioerror":
                                bad({"class": "vector_missing_not_ioerror", "method": meth, "result": res[0]},
                                    "%s(%d,%d,sub=%r) with a missing index -> %s %r" % (meth, s, L, sub, res[0], res[1] if res[0] != "ok" else res[1].shape), query=q)
                            continue
                        if res[0] != "ok":
                            k = {"class": "vector_covered_raised", "exc": type(res[1]).__name__}
                            if L == 1:
                                k["len1"] = True
                            bad(k, "%s(%d,%d,sub=%r) fully covered raised %r" % (meth, s, L, sub, res[1]), query=q)
                            continue
                        if any(r is None for r in want_rows):
                            # fill slots of continuous mode: shape only
                            expv = None
                        else:
                            expv = expected_vector(cfg, want_rows, sub)
                            if meth != "read_vector_raw":
                                expv = to_float(expv)
                        z = res[1]
                        exp_shape = (L,) if (sub is not None or cfg["nsub"] == 1) else (L, cfg["nsub"])
                        if tuple(z.shape) != exp_shape:
                            bad({"class": "vector_shape", "method": meth}, "%s(%d,%d,sub=%r) shape %s expected %s" % (meth, s, L, sub, z.shape, exp_shape), query=q)
                        elif expv is not None and not same_values(np.asarray(z), np.asarray(expv)):
                            bad({"class": "vector_values", "method": meth}, "%s(%d,%d,sub=%r) values differ from what was written" % (meth, s, L, sub), query=q)
        part["evaluations"] += nvec
        part["transitions"] += nvec
        # --- per-sample file properties
        files = model.files(cfg)
        for k in edges:
            rel = rf.file_relpath(k, cfg)
            try:
                p = reader.get_properties(ch, sample=k)
                res = "ok"
            except IOError as ex_:
                res = "ioerror"
                p = ex_
            except Exception as ex_:  # noqa: BLE001
                res = "other:%s" % type(ex_).__name__
                p = ex_
            part["evaluations"] += 1
            has = rel in files if not cfg.unchunked() else rel in files
            if has:
                if res != "ok":
                    bad({"class": "sample_properties_raised"}, "get_properties(sample=%d) -> %s %r; file %s exists" % (k, res, p, rel), query=[k])
                else:
                    fp_ = os.path.join(run.chdir, rel)
                    if not os.path.exists(fp_):
                        fp_ = os.path.join(top, "second_disk", ch, rel)
                    with h5py.File(fp_, "r") as f:
                        a = rfrun._attrs(f["rf_data"])
                    if any(p.get(x) != a[x] for x in ("sequence_num", "uuid_str", "init_utc_timestamp", "computer_time")):
                        bad({"class": "sample_properties_wrong_file"}, "get_properties(sample=%d) does not match %s" % (k, rel), query=[k])
            elif res != "ioerror":
                bad({"class": "sample_properties_no_file"}, "get_properties(sample=%d) -> %s, but no file holds it" % (k, res), query=[k])
        # --- a transient failure to open one data file: the call may raise, but afterwards the reader must
        #     again present the same picture (no stale cache of another file's index)
        full_model = model.runs(lo, hi, cfg)
        real_file = h5py.File
        probes = [(lo, hi)] + [(s_, s_) for s_ in edges if lo <= s_ <= hi][::2]
        for fail_at, probe in [(f_, p_) for f_ in range(0, 4) for p_ in probes]:
            state = {"n": 0}

            class FlakyFile(real_file):
                def __init__(self, *a, **k):
                    i_ = state["n"]
                    state["n"] += 1
                    if i_ == fail_at:
                        raise OSError(11, "unable to lock file (injected, transient)")
                    super().__init__(*a, **k)

            r3 = drf.DigitalRFReader(tops)
            r3.read(lo, lo, ch)  # a first successful query, so that a file is cached
            h5py.File = FlakyFile
            try:
                try:
                    r3.read(lo, hi, ch)
                except OSError:
                    pass
            finally:
                h5py.File = real_file
            part["evaluations"] += 1
            for (qs, qe) in [probe, (lo, hi)]:
                try:
                    got = rf.read_runs(r3, ch, qs, qe)
                except Exception:  # noqa: BLE001
                    # a reader that keeps raising after an I/O failure is outside the statement (the unchanged
                    # reader does: ValueError "Invalid dataset identifier" until another file is read);
                    # what is judged is every query that *returns*
                    part["outcomes"]["raises_after_open_failure"] += 1
                    continue
                err = rf.compare_runs(cfg, got, model.runs(qs, qe, cfg))
                if err:
                    bad({"class": "read_after_transient_open_failure"}, "after a failed open (#%d) read(%d,%d): %s" % (fail_at, qs, qe, err), query=[qs, qe])
                    break
            r3.close()
        # --- reader opened with a relative path, then the process changes its working directory
        if not isinstance(tops, list):
            cwd = os.getcwd()
            try:
                os.chdir(os.path.dirname(top))
                r4 = drf.DigitalRFReader(os.path.basename(top))
                before = rf.read_runs(r4, ch, lo, hi)
                os.chdir("/")
                after = rf.read_runs(r4, ch, lo, hi)
                b4 = r4.get_bounds(ch)
                part["evaluations"] += 2
                if rf.compare_runs(cfg, before, full_model) or rf.compare_runs(cfg, after, full_model) or tuple(b4) != (lo, hi):
                    bad({"class": "relative_path_reader_after_chdir"}, "reader opened with a relative path: read before chdir %s, after chdir %s, bounds %r" % (
                        [(k, len(v)) for k, v in before], [(k, len(v)) for k, v in after], b4))
                r4.close()
            finally:
                os.chdir(cwd)
        # --- a data file expires (ring buffer, mirror in move mode) while a reader that has just used it stays open:
        #     from then on every query answers as if the file had never been there
        if not isinstance(tops, list):
            import copy

            fms = sorted({rf.file_ms(k, cfg["n"], cfg["d"], cfg["fc"]) for k in model.written})
            for victim_ms in ([fms[0], fms[-1]] if len(fms) > 1 else []):
                k_in = min(k for k in model.written if rf.file_ms(k, cfg["n"], cfg["d"], cfg["fc"]) == victim_ms)
                vpath = os.path.join(run.chdir, rf.file_relpath(k_in, cfg))
                r6 = drf.DigitalRFReader(top)
                r6.read(k_in, k_in, ch)  # the reader's open-file cache now holds the victim
                os.rename(vpath, vpath + ".expired")
                try:
                    m2 = copy.deepcopy(model)
                    for k in list(m2.written):
                        if rf.file_ms(k, cfg["n"], cfg["d"], cfg["fc"]) == victim_ms:
                            del m2.written[k]
                    ex2 = m2.exposed(cfg)
                    part["evaluations"] += 3
                    got6 = rf.read_runs(r6, ch, lo, hi)
                    err6 = rf.compare_runs(cfg, got6, m2.runs(lo, hi, cfg))
                    b6 = tuple(r6.get_bounds(ch))
                    blocks6 = [(int(k), int(v)) for k, v in r6.get_continuous_blocks(lo, hi, ch).items()]
                    if err6 or b6 != (min(ex2), max(ex2)) or blocks6 != [(k, len(v)) for k, v in got6]:
                        bad({"class": "expired_file_still_served"}, "file of %d removed while the reader had it open: read %s; bounds %r expected %r; blocks %s" % (
                            k_in, err6, b6, (min(ex2), max(ex2)), blocks6), query=[lo, hi])
                except Exception as e:  # noqa: BLE001
                    bad({"class": "reader_raised_after_file_expired", "exc": type(e).__name__}, repr(e))
                finally:
                    os.rename(vpath + ".expired", vpath)
                    r6.close()
        # --- file-system state the writer did not produce: a damaged file (partial copy) with a well-formed name in an
        #     older subdirectory.  It holds no readable sample: bounds and reads of the recording are unaffected
        if not isinstance(tops, list) and lo > 10 * (cfg["n"] * cfg["fc"] // (cfg["d"] * 1000) + 1) + 10:
            import contextlib
            import io

            k_old = lo - 10 * (cfg["n"] * cfg["fc"] // (cfg["d"] * 1000) + 1) - 5
            ghost = os.path.join(run.chdir, rf.file_relpath(k_old, cfg))
            if not os.path.exists(ghost):
                made_dir = not os.path.isdir(os.path.dirname(ghost))
                os.makedirs(os.path.dirname(ghost), exist_ok=True)
                with open(ghost, "wb") as f_:
                    f_.write(b"\x89HDF\r\n\x1a\n" + b"\0" * 1016)
                part["evaluations"] += 2
                try:
                    with contextlib.redirect_stdout(io.StringIO()):
                        r7 = drf.DigitalRFReader(top)
                        b7 = tuple(r7.get_bounds(ch))
                        got7 = rf.read_runs(r7, ch, lo, hi)
                    err7 = rf.compare_runs(cfg, got7, full_model)
                    if b7 != (lo, hi) or err7:
                        bad({"class": "damaged_foreign_file_changes_answers"}, "with a truncated %s present: bounds %r (expected %r); read: %s" % (
                            os.path.basename(ghost), b7, (lo, hi), err7))
                    r7.close()
                except Exception as e:  # noqa: BLE001
                    bad({"class": "damaged_foreign_file_breaks_reader", "exc": type(e).__name__}, "with a truncated %s present: %r" % (os.path.basename(ghost), e))
                os.remove(ghost)
                if made_dir:
                    os.rmdir(os.path.dirname(ghost))
        reader.close()
        # --- the same channel described by the older drf_properties.h5 layout the reader still accepts (no
        #     numerator/denominator, a samples_per_second value only), for rates that this value determines
        import fractions

        if not isinstance(tops, list) and fractions.Fraction(
                float(np.float64(cfg["n"]) / np.float64(cfg["d"]))).limit_denominator() == fractions.Fraction(cfg["n"], cfg["d"]):
            with h5py.File(os.path.join(run.chdir, "drf_properties.h5"), "a") as f:
                del f.attrs["sample_rate_numerator"], f.attrs["sample_rate_denominator"]
                if "digital_rf_version" in f.attrs:
                    del f.attrs["digital_rf_version"]
                if cfg["d"] == 1:
                    f.attrs["samples_per_second"] = np.uint64(cfg["n"])
                else:
                    f.attrs["samples_per_second"] = np.float64(cfg["n"]) / np.float64(cfg["d"])
            try:
                r5 = drf.DigitalRFReader(top)
                b5 = tuple(r5.get_bounds(ch))
                got5 = rf.read_runs(r5, ch, lo, hi)
                part["evaluations"] += 2
                err5 = rf.compare_runs(cfg, got5, full_model)
                if b5 != (lo, hi) or err5:
                    bad({"class": "older_properties_layout_changes_answers"}, "drf_properties.h5 with samples_per_second only: bounds %r (expected %r); read: %s" % (b5, (lo, hi), err5))
                for s_ in edges[::3]:
                    if rf.compare_runs(cfg, rf.read_runs(r5, ch, s_, s_), model.runs(s_, s_, cfg)):
                        bad({"class": "older_properties_layout_changes_answers"}, "drf_properties.h5 with samples_per_second only: read(%d,%d) differs" % (s_, s_), query=[s_, s_])
                        break
                r5.close()
            except Exception as e:  # noqa: BLE001
                bad({"class": "older_properties_layout_rejected", "exc": type(e).__name__}, repr(e))
            part["outcomes"]["older_properties_layout"] += 1
        part["traces"] += 1
        part["nontrivial"].add(core.canon((cfgd, ops)))
        if not part["samples"]:
            part["samples"].append({"label": label, "ops": ops, "edges": edges[:10], "queries": len(cache)})
    finally:
        core.rm(top)
    return part


def replay(case):
    os.environ["VERIF_SEED"] = str(case.get("seed", 0))
    part = run_channel((case["cfg"], case["ops"], case.get("label", "replay")))
    return [(v["key"], v["detail"]) for v in part["violations"]]


def main(tier):
    chk = core.Check(
        PID, tier, "model_checking",
        rule=("for each channel of a fixed sub-universe (rates x 5 storage modes x 4 layouts incl. single-sample blocks, "
              "type variety, floating-point boundary channels): ALL (s,e) over the edge set (file/block/gap edges +-1, "
              "bounds +-3, capped at 28 edges) are read and compared with the model and with get_continuous_blocks; all "
              "cached split triples (s,m,e); every subchannel; read_vector_raw/read_vector/read_vector_1d for every edge "
              "start x lengths {1,2,nsub,block lengths,+1}; get_properties(sample) at every edge. evaluations = reader calls."),
        assumptions=["64-bit integers are compared after the documented promotion to float64",
                     "fill slots of continuous-unchunked files count as present (they are returned by read)"],
    )
    stage.activate()
    chans = channels(tier)
    rot = core.seed() % max(1, len(chans))
    chans = chans[rot:] + chans[:rot]
    for part in core.pmap(run_channel, chans, chunksize=1):
        chk.merge(part)
    chk.extra["channels"] = len(chans)
    return chk.finish()
