"""C18 - drf cp / mv / ln transfer exactly the listed set (exhaustive grid over trees x options)."""

import hashlib
import itertools
import os
import sys

import numpy as np

from .. import core, md, rf, stage, trees as T
from . import c14

PID = "C18"


def tree_digest(top):
    out = {}
    for root, dirs, files in os.walk(top):
        for f in files:
            p = os.path.join(root, f)
            rel = os.path.relpath(p, top)
            if os.path.islink(p):
                out[rel] = ("link", os.readlink(p))
            else:
                with open(p, "rb") as fh:
                    out[rel] = ("file", hashlib.sha256(fh.read()).hexdigest(), os.stat(p).st_ino)
    return out


def iso(ms):
    """ISO 8601 string for the instant; every other one is written without a zone designator, which the
    tools document as UTC"""
    base = T.from_ms(ms).strftime("%Y-%m-%dT%H:%M:%S.") + "%03d" % (ms % 1000)
    return base + ("Z" if (ms // 1000) % 2 == 0 else "")


def option_sets(times, tier):
    """(argv options, lsdrf kwargs) pairs"""
    out = []
    for idrf, idmd in itertools.product((True, False), repeat=2):
        for pdrf, pdmd in itertools.product((None, True, False), repeat=2):
            argv = []
            if not idrf:
                argv.append("--nodrf")
            if not idmd:
                argv.append("--nodmd")
            if pdrf is not None:
                argv.append("--drfprops" if pdrf else "--nodrfprops")
            if pdmd is not None:
                argv.append("--dmdprops" if pdmd else "--nodmdprops")
            out.append((argv, dict(include_drf=idrf, include_dmd=idmd, include_drf_properties=pdrf, include_dmd_properties=pdmd)))
    ts = sorted(times)
    wins = []
    if ts:
        mid = ts[len(ts) // 2]
        wins = [(mid, None), (None, mid), (mid, mid), (ts[0] + 1, ts[-1]), (ts[0], ts[-1] - 1), (ts[-1] + 1, None), (None, ts[0] - 1)]
        if tier != "quick":
            wins += [(a, b) for a in ts for b in ts if a <= b]
    for s, e in wins:
        if s is not None and e is not None and e < s:
            continue
        for extra, kwx in (([], {}), (["-R"], {"reverse": True}), (["--nodrf"], {"include_drf": False}), (["--nodmd"], {"include_dmd": False})):
            argv = list(extra)
            kw = dict(kwx)
            if s is not None:
                argv += ["-s", iso(s)]
                kw["starttime"] = T.from_ms(s)
            if e is not None:
                argv += ["-e", iso(e)]
                kw["endtime"] = T.from_ms(e)
            out.append((argv, kw))
    # relative end time and integer-second start
    if ts:
        s = ts[0] // 1000 * 1000
        out.append((["-s", str(s // 1000), "-e", "+5"], dict(starttime=T.from_ms(s), endtime=T.from_ms(s + 5000))))
    return out


def bad_any(part):
    return bool(part["violations"])


def run_tree(args):
    import digital_rf as drf
    from digital_rf import drf_command

    spec, tier = args
    part = core.new_part()
    root = core.new_scratch()
    case = {"spec": spec}

    def bad(key, detail, **extra):
        if len(part["violations"]) < 10:
            part["violations"].append(core.Violation(key, dict(case, **extra), detail))

    try:
        probe = os.path.join(root, "probe")
        T.make_tree(probe, spec)
        times = set()
        for r_, d_, files in os.walk(probe):
            for f in files:
                t, k = T.file_time_ms(f)
                if t is not None and T.RE_SUBDIR.match(os.path.basename(r_)):
                    times.add(t)
        chans = [s[0] for s in spec if "/" not in s[0]]
        src_variants = [([], "", True)]  # (argv, src-relative channel list marker, recursive)
        src_variants.append((["--only"], "", False))
        src_variants.append((["-c", chans[0]], [chans[0]], True))
        src_variants.append((["-c", chans[0] + "/"], [chans[0]], True))        # as shell completion writes it
        src_variants.append((["-c", "./" + chans[0], "--only"], [chans[0]], False))
        src_variants.append((["SYMLINKED_SOURCE"], "", True))                     # source reached through a symlinked directory
        src_variants.append((["SYMLINKED_DEST"], "", True))                       # destination reached through a symlink of another depth
        if len(chans) > 1:
            src_variants.append((["-c", chans[0], "-c", chans[1]], chans[:2], True))
            src_variants.append((["-c", "%s, %s" % (chans[0], chans[1]), "--only"], chans[:2], False))
        opts = option_sets(times, tier)
        n = 0
        for cmd in ("cp", "mv", "ln", "lnsym", "mvx"):
            for (oargv, kw) in opts:
                for (sargv, chlist, recursive) in (src_variants if (oargv == [] or n % 7 == 0) else src_variants[:1]):
                    n += 1
                    src = os.path.join(root, "s%d" % n)
                    dest = os.path.join(root, "d%d" % n)
                    T.make_tree(src, spec)
                    if sargv == ["SYMLINKED_DEST"]:
                        # e.g. /data/archive -> /mnt/disk1/vol/archive
                        real_dest = os.path.join(root, "mnt%d" % n, "disk1", "vol", "archive")
                        os.makedirs(real_dest)
                        os.symlink(real_dest, dest)
                        sargv = []
                    else:
                        os.makedirs(dest)
                    real_src = src
                    if sargv == ["SYMLINKED_SOURCE"]:
                        link = os.path.join(root, "l%d" % n)
                        os.symlink(src, link)
                        src, sargv = link, []
                    before = tree_digest(real_src)
                    pairs = [(os.path.join(src, c), os.path.join(dest, c)) for c in chlist] if chlist else [(src, dest)]
                    expected = {}
                    try:
                        for sp, dp in pairs:
                            if not os.path.isdir(sp):
                                continue
                            for p in drf.lsdrf(sp, recursive=recursive, **kw):
                                expected[os.path.relpath(os.path.join(dp, os.path.relpath(p, sp)), dest)] = os.path.relpath(p, src)
                    except Exception as e:  # noqa: BLE001
                        core.rm(src)
                        core.rm(dest)
                        continue  # listing failures belong to C14
                    argv = ["cp" if cmd == "cp" else "mv" if cmd in ("mv", "mvx") else "ln"] + ([] if cmd != "lnsym" else ["--symbolic"]) + \
                        [src, dest] + sargv + oargv
                    real_rename = os.rename
                    if cmd == "mvx":
                        if n % 5:
                            core.rm(src)
                            core.rm(dest)
                            continue

                        def xdev_rename(a, b, _d=dest, _r=real_rename):
                            # source and destination on different file systems
                            if os.path.abspath(str(b)).startswith(_d) != os.path.abspath(str(a)).startswith(_d):
                                raise OSError(18, "Invalid cross-device link")
                            return _r(a, b)

                        os.rename = xdev_rename
                    q = {"cmd": cmd, "argv": argv[3:] if cmd != "lnsym" else argv[4:]}
                    try:
                        try:
                            drf_command.main(argv)
                        finally:
                            os.rename = real_rename
                    except SystemExit as e:
                        raise core.HarnessError("argparse rejected %r: %r" % (argv, e))
                    except Exception as e:  # noqa: BLE001
                        bad({"class": "command_raised", "cmd": cmd, "exc": type(e).__name__}, "drf %s raised %r" % (" ".join(argv), e), **q)
                        core.rm(src)
                        core.rm(dest)
                        continue
                    part["evaluations"] += 1
                    part["transitions"] += 1
                    after_src = tree_digest(real_src)
                    after_dest = tree_digest(dest)
                    part["outcomes"]["%s n=%d" % (cmd, min(len(expected), 6))] += 1
                    if set(after_dest) != set(expected):
                        bad({"class": "transferred_set", "cmd": cmd},
                            "drf %s: destination has %s, listing selects %s" % (
                                " ".join(argv[3:]), sorted(set(after_dest) - set(expected))[:3], sorted(set(expected) - set(after_dest))[:3]), **q)
                    else:
                        for drel, srel in expected.items():
                            b = before[srel]
                            a = after_dest[drel]
                            if cmd in ("cp", "mv", "mvx"):
                                if a[0] != "file" or a[1] != b[1]:
                                    bad({"class": "content_differs", "cmd": cmd}, "%s -> %s" % (srel, drel), **q)
                                    break
                            elif cmd == "ln":
                                if a[0] != "file" or a[2] != b[2]:
                                    bad({"class": "not_a_hard_link", "cmd": cmd}, "%s -> %s" % (srel, drel), **q)
                                    break
                            else:
                                if a[0] != "link" or os.path.realpath(os.path.join(dest, drel)) != os.path.realpath(os.path.join(real_src, srel)):
                                    bad({"class": "not_a_symlink_to_source", "cmd": cmd}, "%s -> %s %r" % (srel, drel, a), **q)
                                    break
                    if cmd == "cp" and expected and n % 5 == 1 and not os.path.islink(dest) and not bad_any(part):
                        # the destination is shipped and emptied, and the same command is run again in this process
                        import shutil

                        shutil.rmtree(dest)
                        os.makedirs(dest)
                        try:
                            drf_command.main(argv)
                            again = set(tree_digest(dest))
                            if again != set(expected):
                                bad({"class": "second_run_into_emptied_destination", "cmd": cmd},
                                    "drf %s run again after the destination was emptied: lacks %s" % (" ".join(argv[:1] + argv[3:]), sorted(set(expected) - again)[:3]), **q)
                        except Exception as e:  # noqa: BLE001
                            bad({"class": "second_run_into_emptied_destination", "cmd": cmd, "exc": type(e).__name__},
                                "drf %s run again after the destination was emptied raised %r" % (" ".join(argv[:1] + argv[3:]), e), **q)
                    if cmd in ("ln", "lnsym") and expected and n % 4 == 0 and not bad_any(part):
                        # the source is regenerated (new content, new inode) and the same command is run again:
                        # it must either refuse or leave links to the current source files - never claim success
                        # with entries that still present the old content
                        victim = sorted(expected.values())[0]
                        vp = os.path.join(real_src, victim)
                        os.unlink(vp)
                        with open(vp, "w") as f:
                            f.write("regenerated content %d\n" % n)
                        try:
                            drf_command.main(argv)
                            second = "ok"
                        except SystemExit:
                            second = "exit"
                        except Exception:  # noqa: BLE001
                            second = "raised"
                        if second == "ok":
                            drel = [k for k, v in expected.items() if v == victim][0]
                            dp = os.path.join(dest, drel)
                            same = os.path.exists(dp) and open(dp).read() == open(vp).read()
                            if not same:
                                bad({"class": "second_ln_left_stale_entry", "cmd": cmd},
                                    "drf %s run twice after %s was regenerated: second run succeeded but the destination entry does not present the source's content" % (
                                        " ".join(argv[:1] + argv[3:]), victim), **q)
                        after_src = tree_digest(real_src)
                        before = dict(after_src)
                    if cmd in ("mv", "mvx"):
                        want_src = {k: v for k, v in before.items() if k not in set(expected.values())}
                        if {k: v[:2] for k, v in after_src.items()} != {k: v[:2] for k, v in want_src.items()}:
                            bad({"class": "mv_source_state", "cmd": cmd}, "source after mv: unexpected %s, missing %s" % (
                                sorted(set(after_src) - set(want_src))[:3], sorted(set(want_src) - set(after_src))[:3]), **q)
                    elif {k: v[:2] for k, v in after_src.items()} != {k: v[:2] for k, v in before.items()}:
                        bad({"class": "source_changed", "cmd": cmd}, "source changed by %s" % cmd, **q)
                    if src != real_src:
                        os.unlink(src)
                    core.rm(real_src)
                    core.rm(dest)
        part["traces"] += 1
        part["nontrivial"].add(core.canon(spec))
        part["states"].add(core.canon(spec))
        if not part["samples"]:
            part["samples"].append({"spec": spec, "option_sets": len(opts), "example_argv": opts[-1][0]})
    finally:
        core.rm(root)
    return part


def run_real(args):
    """reader equivalence on real recordings"""
    import digital_rf as drf
    from digital_rf import drf_command

    mode, cmd, window = args
    part = core.new_part()
    seed = core.seed()
    root = core.new_scratch()
    case = {"real": [mode, cmd, window]}
    try:
        src = os.path.join(root, "src")
        dest = os.path.join(root, "dest")
        os.makedirs(dest)
        n, d = 10, 3
        fc = 1000
        t_base = 1394333998
        if window in ("frac", "frac2300"):
            # 100 ms files; the window is given as plain decimal timestamps falling on file names
            n, d, fc = 100, 1, 100
        if window == "frac2300":
            t_base = 10413792000  # 2300-01-01: file times beyond 2^33 s, where a double no longer holds every millisecond exactly
        cfg = rf.Cfg(n=n, d=d, fc=fc, sc=2, start=md.first_of_ts(t_base, n, d), cont=(mode == "cont"))
        chdir = os.path.join(src, "ch0")
        os.makedirs(os.path.join(chdir, "metadata"))
        w = rf.open_writer(drf, chdir, cfg)
        if window in ("frac", "frac2300"):
            w.rf_write(rf.make_values(cfg, seed, cfg["start"], 140))
            w.rf_write(rf.make_values(cfg, seed, cfg["start"] + 200, 90), 200)
        else:
            w.rf_write(rf.make_values(cfg, seed, cfg["start"], 14))
            w.rf_write(rf.make_values(cfg, seed, cfg["start"] + 20, 9), 20)
        w.close()
        mw = drf.DigitalMetadataWriter(os.path.join(chdir, "metadata"), 10, 2, n, d, "metadata")
        for k in (cfg["start"] + 1, cfg["start"] + 12, cfg["start"] + 25):
            mw.write(k, {"v": int(k % 1000)})
        argv = [cmd if cmd != "lnsym" else "ln"] + (["--symbolic"] if cmd == "lnsym" else []) + [src, dest]
        s_ms = e_ms = None
        if window == "frac":
            s_ms = 1394333998 * 1000 + 300
            e_ms = 1394333999 * 1000 + 100
            argv += ["-s", "%d.%d" % (s_ms // 1000, s_ms % 1000 // 100), "-e", "%d.%d" % (e_ms // 1000, e_ms % 1000 // 100)]
        elif window == "frac2300":
            s_ms = t_base * 1000 + 300
            e_ms = (t_base + 1) * 1000 + 200
            argv += ["-s", iso(s_ms), "-e", iso(e_ms)]
        elif window:
            s_ms = (1394333998 + 2) * 1000
            e_ms = (1394333998 + 7) * 1000
            argv += ["-s", iso(s_ms), "-e", iso(e_ms)]
        listed = None
        if window:
            listed = sorted(os.path.relpath(p_, src) for p_ in drf.lsdrf(src, starttime=T.from_ms(s_ms), endtime=T.from_ms(e_ms)))
        if window == "frac2300":
            # here the expectation is computed from the file names themselves (exact integers), not by the listing
            import re as _re

            by_name = []
            for r_, d_, fs_ in os.walk(src):
                for f_ in fs_:
                    m_ = _re.match(r"^rf@(\d+)\.(\d{3})\.h5$", f_)
                    if m_ and s_ms <= int(m_.group(1)) * 1000 + int(m_.group(2)) <= e_ms:
                        by_name.append(os.path.relpath(os.path.join(r_, f_), src))
            if sorted(p_ for p_ in listed if os.path.basename(p_).startswith("rf@")) != sorted(by_name):
                part["violations"].append(core.Violation({"class": "real_listing_window_by_name", "cmd": cmd}, case,
                                                         "lsdrf selects %s, by file name the window holds %s" % (
                                                             [os.path.basename(p_) for p_ in listed if "rf@" in p_][:3] + ["..."], [os.path.basename(p_) for p_ in sorted(by_name)][:3] + ["..."])))
            listed = sorted(set(p_ for p_ in listed if not os.path.basename(p_).startswith("rf@")) | set(by_name))
        rs = drf.DigitalRFReader(src)
        b = rs.get_bounds("ch0")
        src_blocks = {k: v.tobytes() for k, v in rs.read(b[0], b[1], "ch0").items()}
        src_md = {int(k): v for k, v in rs.read_metadata(b[0], b[1], "ch0", method=None).items() if "v" in v}
        rs.close()
        drf_command.main(argv)
        if listed is not None:
            have = sorted(os.path.relpath(os.path.join(r_, f_), dest) for r_, d_, fs_ in os.walk(dest) for f_ in fs_)
            part["evaluations"] += 1
            if have != listed:
                part["violations"].append(core.Violation({"class": "real_transferred_set", "cmd": cmd}, case,
                                                         "drf %s: destination lacks %s, has in excess %s of what lsdrf selects for the same window" % (
                                                             " ".join(argv[:1] + argv[3:]), sorted(set(listed) - set(have))[:3], sorted(set(have) - set(listed))[:3])))
        rd = drf.DigitalRFReader(dest)
        bd = rd.get_bounds("ch0")
        part["evaluations"] += 1
        part["traces"] += 1
        part["nontrivial"].add(core.canon(args))
        part["states"].add(core.canon(args))
        if bd[0] is None:
            part["violations"].append(core.Violation({"class": "real_destination_empty"}, case, "no data at destination"))
            return part
        got = {k: v.tobytes() for k, v in rd.read(bd[0], bd[1], "ch0").items()}
        # the source restricted to the destination's bounds must read identically
        rs2 = drf.DigitalRFReader(src if cmd != "mv" else dest)
        want = {k: v.tobytes() for k, v in rs2.read(bd[0], bd[1], "ch0").items()} if cmd != "mv" else got
        if cmd == "mv":
            # compare with what the source held before the move
            want = {}
            for k, raw in src_blocks.items():
                want[k] = raw
            flat_src = {}
            rb = cfg.sample_dtype().itemsize
            for k, raw in src_blocks.items():
                for i in range(len(raw) // rb):
                    flat_src[k + i] = raw[i * rb:(i + 1) * rb]
            flat_dst = {}
            for k, raw in got.items():
                for i in range(len(raw) // rb):
                    flat_dst[k + i] = raw[i * rb:(i + 1) * rb]
            if any(flat_src.get(k) != v for k, v in flat_dst.items()) or (not window and flat_src != flat_dst):
                part["violations"].append(core.Violation({"class": "real_reader_differs", "cmd": cmd}, case, "destination data differ from the source"))
        elif got != want:
            part["violations"].append(core.Violation({"class": "real_reader_differs", "cmd": cmd}, case, "destination reader differs from source on %r" % (bd,)))
        dmd = {int(k): v for k, v in rd.read_metadata(bd[0], bd[1], "ch0", method=None).items() if "v" in v}
        for k, v in dmd.items():
            if src_md.get(k, {}).get("v") != v.get("v"):
                part["violations"].append(core.Violation({"class": "real_metadata_differs", "cmd": cmd}, case, "metadata sample %d" % k))
        part["outcomes"]["real %s" % cmd] += 1
    finally:
        core.rm(root)
    return part


def replay(case):
    if "real" in case:
        part = run_real(tuple(case["real"]))
    else:
        part = run_tree(([tuple(s[:2]) + (tuple(s[2]),) for s in case["spec"]], "thorough"))
    return [(v["key"], v["detail"]) for v in part["violations"]]


def main(tier):
    chk = core.Check(
        PID, tier, "exploration",
        rule=("source trees from the C14 grammar (reduced) x {cp, mv, ln, ln --symbolic} x all 36 include-flag combinations "
              "x time windows over the tree's critical times (ISO strings with ms, integer seconds, '+5' relative end) with "
              "-R/--nodrf/--nodmd x source forms {directory, --only, -c ch, -c a -c b, -c 'a, b' --only}; commands run through "
              "digital_rf.drf_command.main in-process; oracle: the real lsdrf with the equivalent keywords evaluated before "
              "the command, byte/inode/link comparison, source digest before/after; plus real recordings (RF + nested "
              "metadata, gapped and continuous) for the reader-equivalence clause."),
        assumptions=["placeholder files with distinct content stand in for HDF5 files (the commands never open them)"],
    )
    stage.activate()
    specs = c14.tree_specs("quick")
    specs = specs[:: (4 if tier == "quick" else 1)]
    jobs = [(s, tier) for s in specs]
    rot = core.seed() % len(jobs)
    jobs = jobs[rot:] + jobs[:rot]
    for part in core.pmap(run_tree, jobs, chunksize=1):
        chk.merge(part)
    real = [(m, c, w) for m in ("gapped", "cont") for c in ("cp", "mv", "ln", "lnsym") for w in (False, True, "frac")] + [("gapped", "cp", "frac2300"), ("gapped", "mv", "frac2300")]
    for part in core.pmap(run_real, real, chunksize=1):
        chk.merge(part)
    return chk.finish()
