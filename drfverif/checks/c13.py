"""C13 - Digital Metadata file placement agrees between writer and reader (exhaustive grid)."""

import calendar
import os

import numpy as np

from .. import core, md, stage, universe as U

PID = "C13"

CADENCES = [(1, 3600), (1, 10), (2, 10), (60, 3600), (3600, 86400)]
SMALL_RATES = [(1, 1), (10, 3), (2, 3), (7, 2), (1000, 1)]
# metadata rates are not limited to 32-bit numerators: k*d beyond 2^64 and 10 MHz-class integer rates
BIG_RATES = [(25 * 10**9, 1001), (10**10, 3), (10**7, 1), (25 * 10**6, 1), (3 * 10**7, 1001)]


def jobs(tier):
    W = 256 if tier == "quick" else 8192
    per = 64 if tier == "quick" else 128
    out = []
    rates = U.FP_RATES + SMALL_RATES + BIG_RATES
    for (n, d) in rates:
        for (fc, sc) in CADENCES:
            for t in (1500000000, 3 * fc):
                j0 = t // fc
                if tier != "quick" and (n, d) in SMALL_RATES:
                    w = 1024
                else:
                    w = W
                for base in range(0, w, per):
                    out.append((n, d, fc, sc, j0 + base, min(per, w - base)))
    return out


def run_job(job):
    import digital_rf as drf
    import h5py

    n, d, fc, sc, j0, w = job
    part = core.new_part()
    ks = set()
    for j in range(j0, j0 + w):
        f = md.first_of_ts(j * fc, n, d)
        ks.update((f - 1, f, f + 1))
    ks = sorted(k for k in ks if k >= 0)
    top = core.new_scratch()
    mdir = os.path.join(top, "md")
    os.makedirs(mdir)
    case = {"job": list(job)}

    def bad(key, detail, **extra):
        if len(part["violations"]) < 6:
            part["violations"].append(core.Violation(key, dict(case, **extra), detail))

    try:
        wri = drf.DigitalMetadataWriter(mdir, sc, fc, n, d, "m")
        # two calls on one writer object; for every other job the later half is written first (back-fill)
        h = len(ks) // 2
        halves = [ks[:h], ks[h:]] if (j0 + w) % 2 == 0 or h == 0 else [ks[h:], ks[:h]]
        poller = None
        for hi_, part_ks in enumerate(halves):
            if not part_ks:
                continue
            if hi_ == 1:
                # long-lived reader polling for samples that do not exist yet
                poller = drf.DigitalMetadataReader(mdir)
                for k in part_ks[::7]:
                    if [int(x) for x in poller.read(k, k)]:
                        bad({"class": "placement", "side": "reader_before_write"}, "read(%d,%d) returned a sample before it was written" % (k, k), k=k)
            wri.write(part_ks, {"v": np.array(part_ks, dtype=np.uint64)})
            if hi_ == 1 and poller is not None:
                for k in part_ks[::7]:
                    if [int(x) for x in poller.read(k, k)] != [k]:
                        bad({"class": "placement", "side": "polling_reader"}, "a reader that polled read(%d,%d) before the write does not see the sample afterwards" % (k, k), k=k)
        part["transitions"] += len(ks)
        # a second channel recorded by the same process over the same file periods (other indices): each
        # channel's samples are placed under its own directory
        mdir2 = os.path.join(top, "md_second_channel")
        os.makedirs(mdir2)
        ks2 = sorted(set(k + 2 for k in ks[::4]))
        wri2 = drf.DigitalMetadataWriter(mdir2, sc, fc, n, d, "m")
        wri2.write(ks2, {"v": np.array(ks2, dtype=np.uint64)})

        def groups_on_disk(base):
            out_ = {}
            for root, dirs, files in os.walk(base):
                for fn in files:
                    if "@" not in fn:
                        continue
                    rel = os.path.relpath(os.path.join(root, fn), base)
                    with h5py.File(os.path.join(root, fn), "r") as f:
                        for g in f.keys():
                            out_.setdefault(int(g), []).append(rel)
            return out_

        # on disk: which file holds which group
        where = groups_on_disk(mdir)
        where2 = groups_on_disk(mdir2)
        if set(where) != set(ks):
            bad({"class": "placement", "side": "writer_foreign_samples"}, "channel directory holds samples %s that were not written to it" % sorted(set(where) - set(ks))[:4])
        for k in ks2:
            want = md.relpath(k, n, d, fc, sc, "m")
            if where2.get(k, []) != [want]:
                bad({"class": "placement", "side": "writer_second_channel"}, "second channel of the process: sample %d stored in %s, exact placement %s" % (k, where2.get(k, []), want), k=k)
                break
        r2c = drf.DigitalMetadataReader(mdir2)
        for k in ks2[::5]:
            if [int(x) for x in r2c.read(k, k)] != [k]:
                bad({"class": "placement", "side": "reader_second_channel"}, "second channel: read(%d,%d) does not return the sample" % (k, k), k=k)
                break
        part["evaluations"] += len(ks2)
        files = set()
        for k in ks:
            want = md.relpath(k, n, d, fc, sc, "m")
            files.add(want)
            got = where.get(k, [])
            if got != [want]:
                bad({"class": "placement", "side": "writer"}, "sample %d (n=%d,d=%d,fc=%d) stored in %s, exact placement %s" % (k, n, d, fc, got, want), k=k)
        # a later writer session configured with another file cadence: refused - or, if the library takes it, every
        # sample of both sessions is still found where the reader looks
        k_late = None
        try:
            wri3 = drf.DigitalMetadataWriter(mdir, sc, fc * 2 + 1, n, d, "m")
            k_late = ks[-1] + 2 * md.first_of_ts(fc * 4 + 4, n, d) + 5
            wri3.write(k_late, {"v": np.uint64(k_late)})
            part["outcomes"]["session_with_other_cadence:accepted"] += 1
        except (ValueError, IOError):
            part["outcomes"]["session_with_other_cadence:refused"] += 1
            k_late = None
        if k_late is not None:
            r3 = drf.DigitalMetadataReader(mdir)
            for k in ks[::5] + [k_late]:
                if [int(x) for x in r3.read(k, k)] != [k]:
                    bad({"class": "placement", "side": "reader_after_session_with_other_cadence"},
                        "a writer session with file cadence %d on a channel recorded with %d was accepted; afterwards read(%d,%d) does not return the sample" % (fc * 2 + 1, fc, k, k), k=k)
                    break
            ks = ks + [k_late]
        # leftovers whose names merely end like a properties file (an operator's backup copies, describing
        # another configuration) do not describe the channel
        import shutil

        for stray in ("2014_dmd_properties.h5", "OLD_metadata.h5"):
            shutil.copy2(os.path.join(mdir, "dmd_properties.h5"), os.path.join(mdir, stray))
            with h5py.File(os.path.join(mdir, stray), "a") as f:
                f.attrs["file_cadence_secs"] = f.attrs["file_cadence_secs"] * 2 + 1
                f.attrs["subdir_cadence_secs"] = f.attrs["subdir_cadence_secs"] * 3
        r = drf.DigitalMetadataReader(mdir)
        for k in ks:
            got = [int(x) for x in r.read(k, k)]
            part["evaluations"] += 1
            if got != [k]:
                bad({"class": "placement", "side": "reader"}, "read(%d,%d) (n=%d,d=%d,fc=%d) -> %s" % (k, k, n, d, fc, got), k=k)
        lt = [int(x) for x in r.read_latest()]
        if lt != [ks[-1]]:
            bad({"class": "placement", "side": "read_latest"}, "read_latest -> %s expected [%d]" % (lt, ks[-1]))
        b = r.get_bounds()
        if tuple(b) != (ks[0], ks[-1]):
            bad({"class": "placement", "side": "bounds"}, "get_bounds -> %s expected %s" % (b, (ks[0], ks[-1])))
        part["evaluations"] += len(ks) + 2
        # ---- the same channel described by each older layout of dmd_properties.h5 the reader still accepts
        #      (renamed rate attributes; renamed cadence attributes; a floating-point rate only - for rates the
        #      reader's rationalisation of that float recovers exactly): placement must not depend on the layout
        import fractions

        r.close() if hasattr(r, "close") else None
        props = os.path.join(mdir, "dmd_properties.h5")
        forms = ["renamed_rate", "renamed_cadence"]
        if fractions.Fraction(float(np.float64(n) / np.float64(d))).limit_denominator() == fractions.Fraction(n, d):
            forms.append("float_rate_only")
        for form in forms:
            with h5py.File(props, "a") as f:
                a = f.attrs
                if form == "renamed_rate":
                    a["samples_per_second_numerator"] = a["sample_rate_numerator"]
                    a["samples_per_second_denominator"] = a["sample_rate_denominator"]
                    del a["sample_rate_numerator"], a["sample_rate_denominator"]
                elif form == "renamed_cadence":
                    a["subdirectory_cadence_seconds"] = a["subdir_cadence_secs"]
                    a["file_cadence_seconds"] = a["file_cadence_secs"]
                    del a["subdir_cadence_secs"], a["file_cadence_secs"]
                else:
                    del a["samples_per_second_numerator"], a["samples_per_second_denominator"]
                    if "digital_metadata_version" in a:
                        del a["digital_metadata_version"]
                    a["samples_per_second"] = np.float64(n) / np.float64(d)
            try:
                r2 = drf.DigitalMetadataReader(mdir)
                for k in ks[::3] + ks[-1:]:
                    got = [int(x) for x in r2.read(k, k)]
                    part["evaluations"] += 1
                    if got != [k]:
                        bad({"class": "placement", "side": "reader_older_properties_layout", "layout": form},
                            "properties in the %s layout: read(%d,%d) (n=%d,d=%d,fc=%d) -> %s" % (form, k, k, n, d, fc, got), k=k)
                        break
                b2 = tuple(r2.get_bounds())
                if b2 != (ks[0], ks[-1]):
                    bad({"class": "placement", "side": "bounds_older_properties_layout", "layout": form}, "get_bounds -> %s expected %s" % (b2, (ks[0], ks[-1])))
            except Exception as e:  # noqa: BLE001
                bad({"class": "older_properties_layout_rejected", "layout": form, "exc": type(e).__name__}, "%s layout: %r" % (form, e))
            part["outcomes"]["older_layout:" + form] += 1
        part["nontrivial"].update(core.canon((n, d, fc, f)) for f in files)
        part["states"].update(core.canon((n, d, fc, f)) for f in files)
        part["outcomes"]["files=%d" % (len(files) // 16 * 16)] += 1
        part["traces"] += 1
        if not part["samples"]:
            part["samples"].append({"job": list(job), "first_samples": ks[:4], "first_file": md.relpath(ks[0], n, d, fc, sc, "m")})
    finally:
        core.rm(top)
    return part


def replay(case):
    part = run_job(tuple(case["job"]))
    return [(v["key"], v["detail"]) for v in part["violations"]]


def main(tier):
    chk = core.Check(
        PID, tier, "exploration",
        rule=("18 rates (8 realistic incl. 1e6/3, 1e8/7, 125e6/3, 2^32-1, (1e9+7)/(1e9-63); 5 small; 5 with numerators up to 2.5e10 so that k*d exceeds 2^64) x 4 cadence pairs x 2 "
              "epochs x every file number j in a window of W consecutive files x k in {ceil(j*fc*n/d)-1, +0, +1}: written "
              "through DigitalMetadataWriter.write, located on disk by opening every file, and queried with read(k,k), "
              "read_latest, get_bounds. distinct_nontrivial = distinct (rate, cadence, file) triples touched."),
        assumptions=["exact placement T = (k*d//n)//fc*fc computed with Python integers"],
    )
    stage.activate()
    js = jobs(tier)
    rot = core.seed() % len(js)
    js = js[rot:] + js[:rot]
    for part in core.pmap(run_job, js, chunksize=1):
        chk.merge(part)
    return chk.finish()
