#!/venv/bin/python
"""Regenerate /verif/MANIFEST.json from the table below (kept in one place so it stays valid)."""
import json, os, sys

HERE = os.path.dirname(os.path.dirname(os.path.abspath(__file__)))
sys.path.insert(0, HERE)
from drfverif.manifest_table import CHECKS, NOT_APPLICABLE  # noqa: E402

checks = []
for pid in sorted(CHECKS):
    c = CHECKS[pid]
    if not os.path.exists(os.path.join(HERE, "drfverif", "checks", pid.lower() + ".py")):
        continue
    checks.append({
        "property_id": pid,
        "quick_cmd": "./check %s quick" % pid,
        "thorough_cmd": "./check %s thorough" % pid,
        "evidence_file": "/verif/evidence/%s.json" % pid,
        "replay_cmd_template": "./check replay {path}",
        "engine": c.get("engine", "drfverif"),
        "level_claimed": {"category": c["level"], "text": c["text"], "design_ref": c["design_ref"]},
        "level_note": c["note"],
        "technique": c["technique"],
    })
built = {c["property_id"] for c in checks}
na = [{"property_id": p, "reason": r} for p, r in sorted(NOT_APPLICABLE.items())]
for i in range(1, 21):
    pid = "C%02d" % i
    if pid not in built and pid not in NOT_APPLICABLE:
        na.append({"property_id": pid, "reason": "check not built yet (in progress); see DESIGN.md section for the planned bounded exploration"})
m = {
    "version": 1,
    "setup_cmd": "./setup.sh",
    "hooks": {
        "guard": "DIGITAL_RF_VERIF",
        "enable": "no source hooks: all instrumentation is external (LD_PRELOAD shims native/fsshim.c on the writer's libc file-system calls and native/gilprobe.c on gmtime, monkey-patching of os/shutil/h5py.File from the harness); checks stage /repo's working tree into /verif/.build",
        "baseline_off_cmd": "cd /repo && /venv/bin/python -m pytest -ra -q -p no:cacheprovider --timeout=900 --continue-on-collection-errors",
        "source_commits": [],
        "add_only": True,
    },
    "engines": [
        {"name": "drfverif", "path": "/verif/drfverif", "serves_properties": sorted(built),
         "kind_free_text": "hand-written explicit-state / deviation-bounded explorers in Python driving the real C library, extension and Python modules staged from /repo, in lock-step with big-integer reference models; LD_PRELOAD file-system-operation shim for crash/fault/schedule enumeration; ASan/UBSan C-API replay driver"},
    ],
    "checks": checks,
    "not_applicable": sorted(na, key=lambda x: x["property_id"]),
    "notes": "All checks rebuild the C library/extension/package from /repo's working tree on every run (content hash). Known findings: /verif/known_findings.json. Replays: /verif/replays/.",
}
with open(os.path.join(HERE, "MANIFEST.json"), "w") as f:
    json.dump(m, f, indent=1)
print("checks:", sorted(built), "not_applicable:", [x["property_id"] for x in na])
