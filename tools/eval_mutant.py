#!/venv/bin/python
"""Apply a patch to /repo, run the given checks, undo the patch, report which checks caught it.

usage: eval_mutant.py <patch.diff> <tier> <check> [<check> ...] [--reverse]
Never leaves /repo modified (git checkout -- . in a finally block)."""
import json
import os
import re
import subprocess
import sys
import time

VERIF = os.path.dirname(os.path.dirname(os.path.abspath(__file__)))


def main():
    args = [a for a in sys.argv[1:] if not a.startswith("--")]
    reverse = "--reverse" in sys.argv
    patch, tier, checks = os.path.abspath(args[0]), args[1], args[2:]
    # EVAL_REPO=<scratch worktree of /repo>: evaluate there (several seeds in parallel) instead of in /repo itself
    REPO = os.environ.get("EVAL_REPO", "/repo")
    tag = re.sub(r"\W", "_", REPO)
    st = subprocess.run(["git", "-C", REPO, "status", "--porcelain", "--untracked-files=no"], capture_output=True, text=True).stdout
    if st.strip():
        print("refusing: /repo has uncommitted changes:\n" + st)
        return 2
    cmd = ["git", "-C", REPO, "apply"] + (["-R"] if reverse else []) + [patch]
    r = subprocess.run(cmd, capture_output=True, text=True)
    if r.returncode != 0:
        print("patch does not apply: " + r.stderr[:500])
        return 2
    out = {}
    try:
        for c in checks:
            t = time.time()
            env = dict(os.environ, DRFVERIF_REPO=REPO, DRFVERIF_EVIDENCE_DIR="/dev/shm/drfverif-mutant-evidence" + tag,
                       DRFVERIF_REPLAY_DIR="/dev/shm/drfverif-mutant-replays" + tag)
            p = subprocess.run([os.path.join(VERIF, "check"), c, tier], capture_output=True, text=True, cwd=VERIF, env=env)
            viol = [ln for ln in p.stdout.splitlines() if ln.startswith("VIOLATION")]
            keys = [ln.strip()[:260] for ln in p.stdout.splitlines() if ln.startswith("  key=")]
            out[c] = {"rc": p.returncode, "violations": len(viol), "first": keys[:2], "wall": round(time.time() - t, 1),
                      "stderr": p.stderr[-300:] if p.returncode == 2 else ""}
            if p.returncode == 1 and os.environ.get("EVAL_STOP_AT_FIRST") == "1":
                break  # the remaining checks were not run (recorded as such by their absence)
    finally:
        subprocess.run(["git", "-C", REPO, "checkout", "--", "."], check=True)
        subprocess.run(["rm", "-rf", "/dev/shm/drfverif-mutant-evidence" + tag, "/dev/shm/drfverif-mutant-replays" + tag])
    print(json.dumps(out, indent=1))
    caught = [c for c, v in out.items() if v["rc"] == 1]
    print("CAUGHT-BY: %s" % (",".join(caught) or "NONE"))
    return 0


if __name__ == "__main__":
    sys.exit(main())
