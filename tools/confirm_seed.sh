#!/bin/sh
# Independently confirm a seeded change in its scratch worktree (never in /repo):
#   patch applies to a clean worktree, builds, the repository's suite passes against the build,
#   the demonstration passes on the unmodified build and fails on the patched one.
# usage: confirm_seed.sh <worktree> <dir with patch.diff + demo.py> <stage dir> <unmodified stage dir>
WT=$1; D=$2; ST=$3; ST0=$4
cd "$WT" || exit 2
git checkout -q -- . || exit 2
if ! git apply --check "$D/patch.diff" 2>/dev/null; then echo "RESULT applies=no"; exit 1; fi
git apply "$D/patch.diff"
if ! /tmp/mutkit/build.sh "$WT" "$ST" >/dev/null 2>&1; then git checkout -q -- .; echo "RESULT applies=yes builds=no"; exit 1; fi
tests=$(PYTHONPATH="$ST" /venv/bin/python -m pytest -q -p no:cacheprovider --timeout=900 python/tests 2>&1 | tail -1)
git checkout -q -- .
(cd "$D" && PYTHONPATH="$ST0" timeout 600 /venv/bin/python demo.py >/dev/null 2>&1); d0=$?
(cd "$D" && PYTHONPATH="$ST" timeout 600 /venv/bin/python demo.py >/dev/null 2>&1); d1=$?
rm -rf "$ST"
echo "RESULT applies=yes builds=yes tests='$tests' demo_unmodified_rc=$d0 demo_patched_rc=$d1"
