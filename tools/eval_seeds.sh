#!/bin/sh
# Evaluate every seeded change under /verif/seeded/<PID>-<m>/ with the checks of its property (and close relatives).
# usage: eval_seeds.sh [tier] [only-pattern]
cd "$(dirname "$0")/.." || exit 2
tier=${1:-quick}
pat=${2:-C}
checks_for() {
  case $1 in
    C01) echo "C01 C08 C11 C06" ;; C02) echo "C02 C09 C10 C11" ;; C03) echo "C03 C04" ;; C04) echo "C04 C11" ;;
    C05) echo "C05 C19" ;; C06) echo "C06 C10 C11" ;; C07) echo "C07 C01 C10" ;; C08) echo "C08 C11" ;;
    C09) echo "C09 C02 C11 C10 C08" ;; C10) echo "C10" ;; C11) echo "C11" ;; C12) echo "C12 C13" ;;
    C13) echo "C13 C12" ;; C14) echo "C14" ;; C15) echo "C15" ;; C16) echo "C16" ;;
    C17) echo "C17 C15" ;; C18) echo "C18" ;; C19) echo "C19 C01" ;; C20) echo "C20 C14 C12" ;;
  esac
}
for d in seeded/${pat}*; do
  [ -f $d/patch.diff ] || continue
  id=$(basename $d); pid=${id%%-*}
  pf=$d/patch.diff; [ -f $d/patch_rebased.diff ] && pf=$d/patch_rebased.diff
  ./tools/eval_mutant.py $pf $tier $(checks_for $pid) > $d/result_$tier.txt 2>&1
  echo "$id -> $(grep CAUGHT-BY $d/result_$tier.txt)"
done
