#!/bin/sh
# run every check of a tier sequentially; prints one summary line per check
cd "$(dirname "$0")/.." || exit 2
tier=${1:-quick}
for i in ${CHECKS:-01 02 03 04 05 06 07 08 09 10 11 12 13 14 15 16 17 18 19 20}; do
  start=$(date +%s)
  timeout ${2:-1500} ./check C$i $tier > ${OUTDIR:-/tmp}/drfverif_C$i.out 2>&1
  rc=$?
  end=$(date +%s)
  echo "C$i rc=$rc $((end-start))s $(grep -c '^VIOLATION' ${OUTDIR:-/tmp}/drfverif_C$i.out) violations $(grep -c '^KNOWN-FINDING' ${OUTDIR:-/tmp}/drfverif_C$i.out) known | $(tail -1 ${OUTDIR:-/tmp}/drfverif_C$i.out | cut -c1-150)"
done
