#!/bin/sh
# Re-introduce each repaired defect (reverse of its fix: commit) and run the checks that should see it.
# usage: revert_mutants.sh [tier]   -> writes seeded/revert-<F>/{patch.diff,result.json}
cd "$(dirname "$0")/.." || exit 2
tier=${1:-quick}
run() { # id commit checks...
  id=$1; c=$2; shift 2
  d=seeded/revert-$id
  mkdir -p $d
  git -C /repo diff $c $c^ > $d/patch.diff
  ./tools/eval_mutant.py $d/patch.diff $tier "$@" > $d/result.txt 2>&1
  echo "$id ($c) -> $(grep CAUGHT-BY $d/result.txt)"
}
run F12 128f637 C01
run F3 4337ac5 C01 C08
run F2 b854708 C07 C01
run F13 771352c C06
run F1 14b9f83 C08
run F4 546d126 C12
run F5 514010a C12
run F6 3018a5d C13 C12
run F14 0480319 C14
run F7F8 562f63b C14
run F9 7451566 C16
run F15 2a0bcea C17
run F11 837599a C02
run F10 8970499 C10
run F16 2e7d4b7 C08
run F17 c031c5d C20 C12
