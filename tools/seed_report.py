#!/venv/bin/python
"""Write seeded/<id>/meta.json for every seeded change and print a markdown detection table.

Inputs per seed directory: patch.diff, demo.py, notes.md (from the independent author),
confirm.txt (my own confirmation run in a scratch worktree) and result_<tier>.txt (eval_mutant output)."""
import glob
import json
import os
import re
import sys

HERE = os.path.dirname(os.path.dirname(os.path.abspath(__file__)))


def main():
    rows = []
    for d in sorted(glob.glob(os.path.join(HERE, "seeded", "*"))):
        if not os.path.isfile(os.path.join(d, "patch.diff")):
            continue
        sid = os.path.basename(d)
        pid = sid.split("-")[0] if not sid.startswith("revert") else None
        notes = open(os.path.join(d, "notes.md")).read() if os.path.exists(os.path.join(d, "notes.md")) else ""
        confirm = open(os.path.join(d, "confirm.txt")).read().strip() if os.path.exists(os.path.join(d, "confirm.txt")) else ""
        files = sorted(set(re.findall(r"^\+\+\+ b/(\S+)", open(os.path.join(d, "patch.diff")).read(), re.M)))
        results = {}
        for rf_ in sorted(glob.glob(os.path.join(d, "result*.txt"))):
            txt = open(rf_).read()
            m = re.search(r"CAUGHT-BY: (\S+)", txt)
            tier = os.path.basename(rf_)[len("result"):-4].strip("_") or "quick"
            try:
                body = json.loads(txt[: txt.rindex("}") + 1][txt.index("{"):])
            except ValueError:
                body = {}
            results[tier] = {"caught_by": [] if not m or m.group(1) == "NONE" else m.group(1).split(","),
                             "checks_run": {k: {"rc": v["rc"], "violations": v["violations"], "first": v["first"][:1]} for k, v in body.items()}}
        title = ""
        for ln in notes.splitlines():
            ln = ln.strip("# ").strip()
            if ln:
                title = ln[:160]
                break
        meta = {
            "id": sid,
            "property": pid or "see revert-mutants (re-introduces a repaired defect)",
            "files_changed": files,
            "summary": title,
            "needs_to_manifest": notes[:1500],
            "confirmed_by_me": confirm or "reverse of a fix: commit; the defect was demonstrated by the check's replay before the fix",
            "how_confirmed": "tools/confirm_seed.sh in the author's scratch worktree (never /repo): patch applies to clean HEAD, builds, the repository's suite passes against the build (PYTHONPATH=<stage>), demo.py exits 0 on the unmodified build and non-zero on the patched one",
            "how_evaluated": "tools/eval_mutant.py: git -C /repo apply <patch>; ./check <ID> <tier>; git -C /repo checkout -- .",
            "results": results,
        }
        with open(os.path.join(d, "meta.json"), "w") as f:
            json.dump(meta, f, indent=1)
        best = []
        for t_ in sorted(results):  # result_quick.txt (owning/mapped checks) and result_quick2.txt (second pass with another check)
            for c_ in results[t_].get("caught_by", []):
                if c_ not in best:
                    best.append(c_)
        if sid.startswith("revert"):
            rr = os.path.join(d, "result.txt")
            if os.path.exists(rr):
                m_ = re.search(r"CAUGHT-BY: (\S+)", open(rr).read())
                if m_ and m_.group(1) != "NONE":
                    best = m_.group(1).split(",")
        status = open(os.path.join(d, "status.txt")).read().strip() if os.path.exists(os.path.join(d, "status.txt")) else ""
        if status:
            meta["status"] = status
        if os.path.exists(os.path.join(d, "patch_rebased.diff")):
            meta["patch_rebased"] = "patch_rebased.diff is patch.diff carried over a later fix: commit that touched the same lines; evaluation uses it"
        with open(os.path.join(d, "meta.json"), "w") as f:
            json.dump(meta, f, indent=1)
        if best:
            shown = ",".join(best)
        elif status.startswith("not detected"):
            shown = "**not detected** (limit, see status.txt)"
        elif status:
            shown = "n/a (see status.txt)"
        else:
            shown = "**missed**"
        rows.append((sid, ", ".join(os.path.basename(x) for x in files)[:44], title[:110].replace("|", "/"), shown))
    print("| seed | files | change | caught by (quick tier; evaluation stops at the first check that reports) |")
    print("|------|-------|--------|-------------------|")
    for r in rows:
        print("| %s | %s | %s | %s |" % r)


if __name__ == "__main__":
    sys.exit(main())
