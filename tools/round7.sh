#!/bin/sh
# Confirm and evaluate one round-7 seeded change delivered in /tmp/mut/<P>/out (author's scratch worktree /tmp/mut/<P>/wt).
# usage: round7.sh <P> [m]      -> /verif/seeded/<P>-r7m<m>/
cd "$(dirname "$0")/.." || exit 2
P=$1; M=${2:-1}; SRC=/tmp/mut/$P/out; WT=/tmp/mut/$P/wt; D=seeded/$P-r7m$M
checks_for() {
  case $1 in
    C01) echo "C01 C08 C11 C06" ;; C02) echo "C02 C09 C10 C11" ;; C03) echo "C03 C04" ;; C04) echo "C04 C11" ;;
    C05) echo "C05 C19" ;; C06) echo "C06 C10 C11" ;; C07) echo "C07 C01 C10" ;; C08) echo "C08 C11" ;;
    C09) echo "C09 C02 C11 C10 C08" ;; C10) echo "C10" ;; C11) echo "C11" ;; C12) echo "C12 C13" ;;
    C13) echo "C13 C12" ;; C14) echo "C14" ;; C15) echo "C15" ;; C16) echo "C16" ;;
    C17) echo "C17 C15" ;; C18) echo "C18" ;; C19) echo "C19 C01" ;; C20) echo "C20 C14 C12" ;;
  esac
}
[ -f $SRC/patch.diff ] && [ -f $SRC/demo.py ] || { echo "$P: no deliverables"; exit 1; }
mkdir -p $D && cp $SRC/patch.diff $SRC/demo.py $D/ && cp $SRC/notes.md $D/ 2>/dev/null
tools/confirm_seed.sh $WT $(pwd)/$D /tmp/mut/$P/stage_confirm /tmp/mutkit/stage0 > $D/confirm.txt 2>&1
cat $D/confirm.txt
grep -q "passed" $D/confirm.txt && grep -q "demo_unmodified_rc=0" $D/confirm.txt && ! grep -q "demo_patched_rc=0" $D/confirm.txt || { echo "$P: NOT CONFIRMED"; exit 1; }
EVAL_REPO=$WT EVAL_STOP_AT_FIRST=1 tools/eval_mutant.py $D/patch.diff quick $(checks_for $P) > $D/result_quick.txt 2>&1
echo "$P-r7m$M -> $(grep CAUGHT-BY $D/result_quick.txt)"
