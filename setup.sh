#!/bin/sh
# MANIFEST.setup_cmd: build native helpers and stage /repo once (offline; gcc/clang + system HDF5 only)
cd "$(dirname "$0")" || exit 2
mkdir -p evidence replays
exec /venv/bin/python -m drfverif.stage
